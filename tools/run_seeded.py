#!/venv/bin/python
"""Run the checks against the seeded changes kept under /verif/seeded/<id>/
(patch.diff, demo, meta.json).  Each patch is applied to a scratch copy of /repo
(outside /repo and /verif), the repository's tests and the demonstration are run
there, then the checks named in meta.json["checks"] (default: the property's own
check) with FB_REPO pointing at the copy.
usage: tools/run_seeded.py [id-substring ...] [--tier quick] [--all]"""
import json
import os
import shutil
import subprocess
import sys
import time

VERIF = os.path.dirname(os.path.dirname(os.path.abspath(__file__)))
BASE = '/dev/shm' if os.path.isdir('/dev/shm') else '/tmp'


def main():
    args = [a for a in sys.argv[1:] if not a.startswith('--')]
    tier = 'quick'
    if '--tier' in sys.argv:
        tier = sys.argv[sys.argv.index('--tier') + 1]
        args = [a for a in args if a != tier]
    sdir = os.path.join(VERIF, 'seeded')
    rc = 0
    for sid in sorted(os.listdir(sdir)):
        d = os.path.join(sdir, sid)
        if not os.path.isdir(d) or (args and not any(a in sid for a in args)):
            continue
        meta = json.load(open(os.path.join(d, 'meta.json')))
        scratch = os.path.join(BASE, 'fbseed_%d_%s' % (os.getpid(), sid))
        out = os.path.join(BASE, 'fbseedout_%d_%s' % (os.getpid(), sid))
        for x in (scratch, out):
            if os.path.exists(x):
                shutil.rmtree(x)
        shutil.copytree('/repo', scratch, ignore=shutil.ignore_patterns('.git', '__pycache__', '.benchmarks'))
        try:
            demo = os.path.join(d, meta.get('demo', 'demo.py'))
            r0 = subprocess.run(['/venv/bin/python', demo, scratch], capture_output=True, text=True, timeout=600)
            a = subprocess.run(['patch', '-p1', '-s', '-i', os.path.join(d, 'patch.diff')], cwd=scratch,
                               capture_output=True, text=True)
            if a.returncode != 0:
                print(sid, 'PATCH DOES NOT APPLY', a.stdout[-300:], a.stderr[-300:])
                rc = 1
                continue
            t = subprocess.run(['/venv/bin/python', '-m', 'pytest', '-q', '-p', 'no:cacheprovider', '--timeout=600'],
                               cwd=scratch, capture_output=True, text=True)
            r1 = subprocess.run(['/venv/bin/python', demo, scratch], capture_output=True, text=True, timeout=600)
            res = {'tests_pass_with_patch': t.returncode == 0, 'demo_exit_without_patch': r0.returncode,
                   'demo_exit_with_patch': r1.returncode, 'checks': {}}
            env = dict(os.environ, FB_REPO=scratch, FBVERIF_OUT=out, PYTHONPATH=VERIF)
            props = meta.get('checks') or [meta['property']]
            if '--all' in sys.argv:
                props = ['C%02d' % i for i in range(1, 19)]
            for prop in props:
                t0 = time.time()
                r = subprocess.run(['/venv/bin/python', '-m', 'fbverif.harness', prop, '--tier', tier],
                                   cwd=VERIF, env=env, capture_output=True, text=True)
                sigs = [l.strip()[11:] for l in r.stdout.splitlines() if l.strip().startswith('signature:')]
                nviol = sum(1 for l in r.stdout.splitlines() if l.startswith('VIOLATION property='))
                rc_eff = r.returncode
                if rc_eff == 1 and nviol == 0:
                    rc_eff = 3      # the harness itself failed (crash, syntax error): not a detection
                    print('  !! %s on %s: exit 1 without a VIOLATION line (harness failure): %s' % (
                        prop, sid, (r.stderr or r.stdout)[-200:].replace('\n', ' | ')), flush=True)
                res['checks'][prop] = {'exit': rc_eff, 'signatures': sigs[:4],
                                       'wall_s': round(time.time() - t0, 1), 'tier': tier}
            caught = [p for p, c in res['checks'].items() if c['exit'] == 1]
            res['caught_by'] = caught
            meta.setdefault('runs', {})[tier] = res
            json.dump(meta, open(os.path.join(d, 'meta.json'), 'w'), indent=1)
            print('%-28s tests=%s demo %s->%s caught_by=%s %s' % (
                sid, res['tests_pass_with_patch'], r0.returncode, r1.returncode, caught,
                {p: c['exit'] for p, c in res['checks'].items()}), flush=True)
            if not caught:
                rc = 1
        finally:
            shutil.rmtree(scratch, ignore_errors=True)
            shutil.rmtree(out, ignore_errors=True)
    return rc


if __name__ == '__main__':
    sys.exit(main())
