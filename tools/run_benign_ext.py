#!/venv/bin/python
"""Independent behaviour-preserving refactorings (benign_ext/<id>/patch.diff + meta.json, written by
sub-agents that were asked to refactor WITHOUT changing behaviour): apply each to a scratch copy of
/repo (outside /repo and /verif), run the repository's tests there, then ALL 18 quick checks with
FB_REPO pointing at the copy.  Every check must exit 0: an alarm is either a false alarm of the
machinery (to be corrected) or a behaviour change the agent did not notice (then the patch is not
benign and is documented as such in its meta.json).
usage: tools/run_benign_ext.py [id-substring ...] [--props C01,C04]"""
import json
import os
import shutil
import subprocess
import sys
import time

VERIF = os.path.dirname(os.path.dirname(os.path.abspath(__file__)))
BASE = '/dev/shm' if os.path.isdir('/dev/shm') else '/tmp'


def main():
    args = [a for a in sys.argv[1:] if not a.startswith('--')]
    props = ['C%02d' % i for i in range(1, 19)]
    if '--props' in sys.argv:
        props = sys.argv[sys.argv.index('--props') + 1].split(',')
        args = [a for a in args if a != ','.join(props)]
    bdir = os.path.join(VERIF, 'benign_ext')
    rc = 0
    for bid in sorted(os.listdir(bdir)):
        d = os.path.join(bdir, bid)
        if not os.path.isdir(d) or (args and not any(a in bid for a in args)):
            continue
        meta = json.load(open(os.path.join(d, 'meta.json')))
        scratch = os.path.join(BASE, 'fbbx_%d_%s' % (os.getpid(), bid))
        out = os.path.join(BASE, 'fbbxout_%d_%s' % (os.getpid(), bid))
        for x in (scratch, out):
            if os.path.exists(x):
                shutil.rmtree(x)
        shutil.copytree('/repo', scratch, ignore=shutil.ignore_patterns('.git', '__pycache__', '.benchmarks'))
        try:
            a = subprocess.run(['patch', '-p1', '-s', '-i', os.path.join(d, 'patch.diff')], cwd=scratch,
                               capture_output=True, text=True)
            if a.returncode != 0:
                print(bid, 'PATCH DOES NOT APPLY', a.stdout[-200:])
                rc = 1
                continue
            t = subprocess.run(['/venv/bin/python', '-m', 'pytest', '-q', '-p', 'no:cacheprovider', '--timeout=600'],
                               cwd=scratch, capture_output=True, text=True)
            res = {'tests_pass': t.returncode == 0, 'checks': {}}
            env = dict(os.environ, FB_REPO=scratch, FBVERIF_OUT=out, PYTHONPATH=VERIF)
            for prop in props:
                t0 = time.time()
                r = subprocess.run(['/venv/bin/python', '-m', 'fbverif.harness', prop, '--tier', 'quick'],
                                   cwd=VERIF, env=env, capture_output=True, text=True)
                sigs = [l.strip()[11:] for l in r.stdout.splitlines() if l.strip().startswith('signature:')]
                inc = [l.strip()[:160] for l in r.stdout.splitlines() if l.startswith('INCONCLUSIVE')]
                res['checks'][prop] = {'exit': r.returncode, 'signatures': sigs[:4], 'inconclusive': inc[:2],
                                       'wall_s': round(time.time() - t0, 1)}
            bad = {p: c for p, c in res['checks'].items() if c['exit'] != 0}
            res['status'] = 'silent' if not bad else 'ALARM'
            meta.setdefault('runs', {})['quick'] = res
            json.dump(meta, open(os.path.join(d, 'meta.json'), 'w'), indent=1)
            print('%-12s %-7s tests=%s %s' % (bid, res['status'], res['tests_pass'],
                                              {p: c['exit'] for p, c in bad.items()}), flush=True)
            for p, c in bad.items():
                print('    ', p, c['signatures'][:3], c['inconclusive'][:1], flush=True)
            if bad:
                rc = 1
        finally:
            shutil.rmtree(scratch, ignore_errors=True)
            shutil.rmtree(out, ignore_errors=True)
    return rc


if __name__ == '__main__':
    sys.exit(main())
