#!/bin/sh
# usage: tools/sweep.sh <tier> <seed> [ids...]   -- run checks one after another, print one line each
tier=$1; seed=$2; shift 2
ids=${@:-C01 C02 C03 C04 C05 C06 C07 C08 C09 C10 C11 C12 C13 C14 C15 C16 C17 C18}
cd "$(dirname "$0")/.."
for c in $ids; do
  VERIF_SEED=$seed /venv/bin/python -m fbverif.harness $c --tier $tier > /tmp/sweep_$$.out 2>&1
  rc=$?
  echo "== $c tier=$tier seed=$seed exit=$rc"
  grep -A1 "^VIOLATION\|INCONCL\|^KNOWN" /tmp/sweep_$$.out | cut -c1-400
  grep "^C[0-9][0-9] tier" /tmp/sweep_$$.out | cut -c1-160
done
rm -f /tmp/sweep_$$.out
