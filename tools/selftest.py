#!/venv/bin/python
"""E10: apply each mutant to a scratch copy of /repo (outside /repo and /verif),
check that the repository's own tests still pass there, run the expected
property checks against the copy and require exit 1.
usage: tools/selftest.py [mutant-id-substring ...] [--all-checks] [--tier quick]"""
import json
import os
import shutil
import subprocess
import sys
import time

VERIF = os.path.dirname(os.path.dirname(os.path.abspath(__file__)))
sys.path.insert(0, VERIF)
from mutants.mutants import M  # noqa: E402

BASE = '/dev/shm' if os.path.isdir('/dev/shm') else '/tmp'


def run_mutant(mu, tier, extra_props=()):
    scratch = os.path.join(BASE, 'fbmut_%d_%s' % (os.getpid(), mu['id']))
    out = os.path.join(BASE, 'fbmutout_%d_%s' % (os.getpid(), mu['id']))
    for d in (scratch, out):
        if os.path.exists(d):
            shutil.rmtree(d)
    shutil.copytree('/repo', scratch, ignore=shutil.ignore_patterns('.git', '__pycache__', '.benchmarks'))
    res = {'id': mu['id'], 'props': mu['props'], 'note': mu.get('note', '')}
    try:
        p = os.path.join(scratch, 'file_builder', mu['file'])
        s = open(p).read()
        if s.count(mu['old']) != 1:
            res['status'] = 'not-applicable (%d matches)' % s.count(mu['old'])
            return res
        open(p, 'w').write(s.replace(mu['old'], mu['new']))
        t = subprocess.run(['/venv/bin/python', '-m', 'pytest', '-q', '-x', '-p', 'no:cacheprovider',
                            '--timeout=600'], cwd=scratch, capture_output=True, text=True)
        res['tests_pass'] = t.returncode == 0
        if not res['tests_pass']:
            res['tests_tail'] = t.stdout[-300:]
        res['checks'] = {}
        env = dict(os.environ, FB_REPO=scratch, FBVERIF_OUT=out, PYTHONPATH=VERIF)
        for prop in list(mu['props']) + [p for p in extra_props if p not in mu['props']]:
            t0 = time.time()
            r = subprocess.run(['/venv/bin/python', '-m', 'fbverif.harness', prop, '--tier', tier],
                               cwd=VERIF, env=env, capture_output=True, text=True)
            sigs = [l.strip()[11:] for l in r.stdout.splitlines() if l.strip().startswith('signature:')]
            nviol = sum(1 for l in r.stdout.splitlines() if l.startswith('VIOLATION property='))
            rc_eff = r.returncode if not (r.returncode == 1 and nviol == 0) else 3   # 3 = harness failure, not a detection
            res['checks'][prop] = {'exit': rc_eff, 'signatures': sigs[:3], 'wall': round(time.time() - t0, 1)}
        exp = [res['checks'][p]['exit'] for p in mu['props']]
        res['status'] = 'caught' if any(e == 1 for e in exp) else 'MISSED'
        if res['status'] == 'MISSED' and mu.get('equivalent'):
            res['status'] = 'equivalent'
            res['note'] = 'equivalent mutant: ' + mu['equivalent']
        res['caught_by'] = [p for p in res['checks'] if res['checks'][p]['exit'] == 1]
    finally:
        shutil.rmtree(scratch, ignore_errors=True)
        shutil.rmtree(out, ignore_errors=True)
    return res


def main():
    args = [a for a in sys.argv[1:] if not a.startswith('--')]
    tier = 'quick'
    if '--tier' in sys.argv:
        tier = sys.argv[sys.argv.index('--tier') + 1]
        args = [a for a in args if a != tier]
    sel = [mu for mu in M if not args or any(a in mu['id'] for a in args)]
    results = []
    for mu in sel:
        r = run_mutant(mu, tier)
        results.append(r)
        print('%-45s %-8s tests_pass=%s %s' % (r['id'], r.get('status'), r.get('tests_pass'),
                                               {p: c['exit'] for p, c in r.get('checks', {}).items()}), flush=True)
    outp = os.path.join(VERIF, 'mutants', 'RESULTS.json')
    old = {}
    if os.path.exists(outp):
        old = {r['id']: r for r in json.load(open(outp))}
    for r in results:
        old[r['id']] = r
    json.dump(list(old.values()), open(outp, 'w'), indent=1)
    missed = [r['id'] for r in results if r.get('status') == 'MISSED']
    print('missed:', missed)
    return 1 if missed else 0


if __name__ == '__main__':
    sys.exit(main())
