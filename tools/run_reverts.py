#!/venv/bin/python
"""Every repaired defect must be reported again if it ever returns: for each "fixed:" entry of
known_findings.json the repairing commit is reverse-applied to a scratch copy of /repo's current tree
(outside /repo and /verif), the repository's tests are run there (they passed before the repair, so they
should pass again), then the quick check of the entry's property with FB_REPO pointing at the copy.
Expected: exit 1 with a VIOLATION line.  Results: reverts/RESULTS.json.
usage: tools/run_reverts.py [commit-substring ...] [--extra C09,C01]"""
import json
import os
import re
import shutil
import subprocess
import sys

VERIF = os.path.dirname(os.path.dirname(os.path.abspath(__file__)))
BASE = '/dev/shm' if os.path.isdir('/dev/shm') else '/tmp'


def rdiff(commit, files=('file_builder',)):
    return subprocess.run(['git', '-C', '/repo', 'diff', commit + '^', commit, '--'] + list(files),
                          capture_output=True, text=True).stdout


def rapply(scratch, diff, dry=False):
    a = subprocess.run(['patch', '-R', '-p1', '-s', '--fuzz=3'] + (['--dry-run'] if dry else []), cwd=scratch,
                       input=diff, capture_output=True, text=True)
    return a.returncode == 0


def revert(scratch, commit):
    """reverse-apply the repair: (1) whole; (2) only the files whose part reverses cleanly (a later repair may have
    built on a helper this one added); (3) after first reverting the later repairs of the same files, newest first"""
    if rapply(scratch, rdiff(commit), dry=True):
        rapply(scratch, rdiff(commit))
        return 'whole commit'
    files = subprocess.run(['git', '-C', '/repo', 'diff', '--name-only', commit + '^', commit, '--', 'file_builder'],
                           capture_output=True, text=True).stdout.split()
    ok = [f for f in files if rapply(scratch, rdiff(commit, [f]), dry=True)]
    if ok and len(files) > 1:
        for f in ok:
            rapply(scratch, rdiff(commit, [f]))
        return 'only ' + ', '.join(ok)
    later = subprocess.run(['git', '-C', '/repo', 'log', '--format=%h %s', commit + '..HEAD', '--'] + files,
                           capture_output=True, text=True).stdout.splitlines()
    chain = []
    for line in later:        # newest first
        c, subj = line.split(' ', 1)
        if not subj.startswith('fix:'):
            continue
        if not rapply(scratch, rdiff(c), dry=True):
            return None
        rapply(scratch, rdiff(c))
        chain.append(c)
        if rapply(scratch, rdiff(commit), dry=True):
            rapply(scratch, rdiff(commit))
            return 'together with the later repairs ' + ', '.join(chain)
    return None


def main():
    args = [a for a in sys.argv[1:] if not a.startswith('--')]
    extra = []
    if '--extra' in sys.argv:
        extra = sys.argv[sys.argv.index('--extra') + 1].split(',')
        args = [a for a in args if a != ','.join(extra)]
    kf = json.load(open(os.path.join(VERIF, 'known_findings.json')))
    resf = os.path.join(VERIF, 'reverts', 'RESULTS.json')
    os.makedirs(os.path.dirname(resf), exist_ok=True)
    results = json.load(open(resf)) if os.path.exists(resf) else {}
    rc = 0
    for line in kf['fixed']:
        m = re.match(r'fixed: property=(C\d+) ([0-9a-f]{7,}) (.*)', line)
        if not m:
            continue
        prop, commit, what = m.groups()
        if args and not any(a in commit for a in args):
            continue
        scratch = os.path.join(BASE, 'fbrev_%d_%s' % (os.getpid(), commit))
        out = os.path.join(BASE, 'fbrevout_%d_%s' % (os.getpid(), commit))
        for x in (scratch, out):
            if os.path.exists(x):
                shutil.rmtree(x)
        shutil.copytree('/repo', scratch, ignore=shutil.ignore_patterns('.git', '__pycache__', '.benchmarks'))
        try:
            how = revert(scratch, commit)
            res = {'property': prop, 'what': what[:200], 'reverse_applies': how is not None, 'reverted_how': how}
            if how is None:
                res['status'] = 'later repairs rewrote the same lines: cannot be reverted'
                print('%-8s %s  NOT REVERTIBLE' % (commit, prop), flush=True)
                results[commit] = res
                continue
            t = subprocess.run(['/venv/bin/python', '-m', 'pytest', '-q', '-p', 'no:cacheprovider', '--timeout=600'],
                               cwd=scratch, capture_output=True, text=True)
            res['tests_pass'] = t.returncode == 0
            env = dict(os.environ, FB_REPO=scratch, FBVERIF_OUT=out, PYTHONPATH=VERIF)
            res['checks'] = {}
            for p in [prop] + [e for e in extra if e != prop]:
                r = subprocess.run(['/venv/bin/python', '-m', 'fbverif.harness', p, '--tier', 'quick'],
                                   cwd=VERIF, env=env, capture_output=True, text=True)
                viol = any(l.startswith('VIOLATION') for l in r.stdout.splitlines())
                sigs = [l.strip()[11:] for l in r.stdout.splitlines() if l.strip().startswith('signature:')]
                res['checks'][p] = {'exit': r.returncode, 'violation_line': viol, 'signatures': sigs[:3]}
            caught = [p for p, c in res['checks'].items() if c['exit'] == 1 and c['violation_line']]
            res['reported_again_by'] = caught
            res['status'] = 'reported again' if caught else 'NOT REPORTED'
            if not caught:
                rc = 1
            print('%-8s %s  tests=%s %s %s' % (commit, prop, res['tests_pass'], res['status'], caught), flush=True)
            results[commit] = res
        finally:
            shutil.rmtree(scratch, ignore_errors=True)
            shutil.rmtree(out, ignore_errors=True)
            json.dump(results, open(resf, 'w'), indent=1, sort_keys=True)
    return rc


if __name__ == '__main__':
    sys.exit(main())
