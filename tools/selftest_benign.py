#!/venv/bin/python
"""Apply each behaviour-preserving refactoring to a scratch copy of /repo and require
every listed check to exit 0 (no false alarm).  usage: tools/selftest_benign.py [id-substr] [--all]"""
import json
import os
import shutil
import subprocess
import sys
import time

VERIF = os.path.dirname(os.path.dirname(os.path.abspath(__file__)))
sys.path.insert(0, VERIF)
from mutants.benign import B  # noqa: E402

BASE = '/dev/shm' if os.path.isdir('/dev/shm') else '/tmp'


def main():
    args = [a for a in sys.argv[1:] if not a.startswith('--')]
    results = []
    rc = 0
    for mu in B:
        if args and not any(a in mu['id'] for a in args):
            continue
        scratch = os.path.join(BASE, 'fbben_%d_%s' % (os.getpid(), mu['id']))
        out = os.path.join(BASE, 'fbbenout_%d_%s' % (os.getpid(), mu['id']))
        for d in (scratch, out):
            if os.path.exists(d):
                shutil.rmtree(d)
        shutil.copytree('/repo', scratch, ignore=shutil.ignore_patterns('.git', '__pycache__', '.benchmarks'))
        res = {'id': mu['id'], 'note': mu['note'], 'checks': {}}
        try:
            ok = True
            for f, old, new in mu['edits']:
                p = os.path.join(scratch, 'file_builder', f)
                s = open(p).read()
                if s.count(old) != 1:
                    res['status'] = 'not-applicable (%s: %d matches)' % (f, s.count(old))
                    ok = False
                    break
                open(p, 'w').write(s.replace(old, new))
            if not ok:
                print(mu['id'], res['status'])
                results.append(res)
                continue
            t = subprocess.run(['/venv/bin/python', '-m', 'pytest', '-q', '-x', '-p', 'no:cacheprovider',
                                '--timeout=600'], cwd=scratch, capture_output=True, text=True)
            res['tests_pass'] = t.returncode == 0
            env = dict(os.environ, FB_REPO=scratch, FBVERIF_OUT=out, PYTHONPATH=VERIF)
            props = mu['props'] if '--all' not in sys.argv else ['C%02d' % i for i in range(1, 19)]
            for prop in props:
                t0 = time.time()
                r = subprocess.run(['/venv/bin/python', '-m', 'fbverif.harness', prop, '--tier', 'quick'],
                                   cwd=VERIF, env=env, capture_output=True, text=True)
                sigs = [l.strip()[11:] for l in r.stdout.splitlines() if l.strip().startswith('signature:')]
                inc = [l.strip() for l in r.stdout.splitlines() if l.startswith('INCONCLUSIVE')]
                res['checks'][prop] = {'exit': r.returncode, 'signatures': sigs[:3], 'inconclusive': inc[:2],
                                       'wall': round(time.time() - t0, 1)}
            bad = {p: c for p, c in res['checks'].items() if c['exit'] != 0}
            res['status'] = 'silent' if not bad else 'FALSE-ALARM'
            if bad:
                rc = 1
            print('%-40s %-12s tests_pass=%s %s' % (mu['id'], res['status'], res['tests_pass'],
                                                    {p: c['exit'] for p, c in res['checks'].items()}), flush=True)
            for p, c in bad.items():
                print('   ', p, c['signatures'], c['inconclusive'])
        finally:
            shutil.rmtree(scratch, ignore_errors=True)
            shutil.rmtree(out, ignore_errors=True)
        results.append(res)
    outp = os.path.join(VERIF, 'mutants', 'BENIGN_RESULTS.json')
    old = {}
    if os.path.exists(outp):
        old = {r['id']: r for r in json.load(open(outp))}
    for r in results:
        old[r['id']] = r
    json.dump(list(old.values()), open(outp, 'w'), indent=1)
    return rc


if __name__ == '__main__':
    sys.exit(main())
