#!/venv/bin/python
"""Regenerate /verif/MANIFEST.json from the CONFIG of every check module."""
import importlib
import json
import os
import sys

VERIF = os.path.dirname(os.path.dirname(os.path.abspath(__file__)))
sys.path.insert(0, VERIF)
os.environ.setdefault('FB_REPO', '/repo')

ALL = ['C%02d' % i for i in range(1, 19)]
NOT_YET = {}

checks = []
na = []
for pid in ALL:
    path = os.path.join(VERIF, 'fbverif', 'checks', pid.lower() + '.py')
    if not os.path.exists(path):
        na.append({'property_id': pid, 'reason': NOT_YET.get(
            pid, 'check not built yet in this session (runtime monitoring applies; see DESIGN.md section 3)')})
        continue
    mod = importlib.import_module('fbverif.checks.' + pid.lower())
    cfg = mod.CONFIG
    checks.append({
        'property_id': pid,
        'quick_cmd': '/venv/bin/python -m fbverif.harness %s --tier quick' % pid,
        'thorough_cmd': '/venv/bin/python -m fbverif.harness %s --tier thorough' % pid,
        'evidence_file': '/verif/evidence/%s.json' % pid,
        'replay_cmd_template': '/venv/bin/python -m fbverif.replaycase {path}',
        'engine': 'fbverif',
        'level_claimed': {
            'category': cfg['level'],
            'text': cfg.get('level_text') or (
                ('Runtime monitoring with bounded %s: the property held on every execution explored in the run '
                 '(counts and samples in the evidence file); nothing is claimed beyond them. ' % (
                     'enumeration of fault / crash points on generated runs' if cfg['level'] == 'fault_enumeration'
                     else 'exploration of generated programs, histories, inputs and schedules')) +
                ('This is the level at which the quantifiers of the property (programs x histories x '
                 'faults/schedules) are actually exercised against the real code; the oracle is an independent '
                 'reference model of the documented semantics, so expected values exist for inputs nobody wrote '
                 'down. What is explored: ' + cfg['rule'])),
            'design_ref': cfg.get('design_ref', 'DESIGN.md section 3 (%s)' % pid),
        },
        'level_note': cfg.get('level_note') or (
            'Runtime monitoring only: held on the executions observed (counts in the evidence file). '
            'Trusted base: CPython audit hooks / sys.monitoring, the reference model in '
            'fbverif/model.py (validated against from-scratch runs of the library itself), Linux tmpfs semantics.'),
        'technique': cfg.get('technique', 'runtime monitoring: generated workloads + reference-model oracle on recorded API/FS events'),
    })

manifest = {
    'version': 1,
    'setup_cmd': 'mkdir -p /verif/evidence /verif/replays && /venv/bin/python -c "import sys; assert sys.version_info >= (3, 12)"',
    'hooks': {
        'guard': 'FILE_BUILDER_VERIF',
        'enable': ('no source hooks in /repo: with FILE_BUILDER_VERIF=1 the harness process imports '
                   'file_builder from the current working tree of /repo (FB_REPO overrides) and installs '
                   'its monitors in-process (sys.addaudithook, sys.monitoring, threading shim, gzip proxy); '
                   'with the guard unset nothing is installed'),
        'baseline_off_cmd': ('cd /repo && /venv/bin/python -m pytest -ra -q -p no:cacheprovider '
                             '--timeout=900 --continue-on-collection-errors'),
        'source_commits': [],
        'add_only': True,
    },
    'engines': [{
        'name': 'fbverif',
        'path': '/verif/fbverif',
        'serves_properties': [c['property_id'] for c in checks],
        'kind_free_text': ('runtime monitoring: program/history generator, reference model of the documented '
                           'semantics, lock-step execution of the real library, audit-hook FS event monitor with '
                           'fault injection, crash-point enumeration, baton scheduler on sys.monitoring LINE '
                           'events, strace cross-check of the audit hook, triage against known_findings.json'),
    }],
    'checks': checks,
    'not_applicable': na,
    'notes': ('All checks: exit 0 held on everything explored / exit 1 + VIOLATION line / exit 2 + INCONCLUSIVE '
              'line (gate counters zero, watchdog). Genuine defects found and repaired are listed in '
              'known_findings.json as fixed entries (they suppress nothing).'),
}
with open(os.path.join(VERIF, 'MANIFEST.json'), 'w') as f:
    json.dump(manifest, f, indent=1)
print('checks:', [c['property_id'] for c in checks])
print('not_applicable:', [n['property_id'] for n in na])
