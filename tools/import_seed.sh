#!/bin/sh
# usage: [WT=/tmp/wt5_] tools/import_seed.sh C06 [suffix]   -- copy a sub-agent's deliverables from /tmp/wt_<id> into /verif/seeded/
id=$1; suf=${2:-a}
wt=${WT:-/tmp/wt_}$id
d=/verif/seeded/${id}${suf}
mkdir -p $d
cp $wt/seed_patch.diff $d/patch.diff
cp $wt/seed_demo.py $d/demo.py
/venv/bin/python - "$id" "$d" "$wt" <<'PY'
import json, sys
pid, d = sys.argv[1], sys.argv[2]
try:
    m = json.load(open(sys.argv[3] + '/seed_meta.json'))
except Exception as e:
    m = {'summary': 'meta missing: %r' % e}
meta = {'property': pid, 'demo': 'demo.py', 'source': 'independent sub-agent (saw only the property text and a scratch worktree of /repo)',
        'summary': m.get('summary'), 'needs': m.get('needs'), 'files_changed': m.get('files_changed'), 'checks': [pid]}
json.dump(meta, open(d + '/meta.json', 'w'), indent=1)
PY
echo imported $d
