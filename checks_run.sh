#!/bin/sh
# usage: ./checks_run.sh <ID> <tier>
cd "$(dirname "$0")"
exec /venv/bin/python -m fbverif.harness "$1" --tier "${2:-quick}"
