"""E4/E5: file-system event monitor on sys.addaudithook, with fault injection.

The hook is raised by CPython itself for every os.mkdir/rename/remove/rmdir/
open/utime/truncate/listdir/... of the process, so it sees the library's effects
however the library spells them.  It is armed only while an API call of the
library is in progress; effects of generated *user* code are bracketed with
enter_user()/exit_user() (thread local)."""
import os
import sys
import threading

_active = None
_installed = False
_tls = threading.local()

WRITE_FLAGS = os.O_WRONLY | os.O_RDWR | os.O_CREAT | os.O_TRUNC | os.O_APPEND

MUTATING = {'os.mkdir', 'os.rename', 'os.remove', 'os.rmdir', 'os.truncate', 'os.utime',
            'shutil.rmtree', 'os.chmod', 'os.chown', 'os.link', 'os.symlink',
            'shutil.move', 'shutil.copyfile', 'shutil.copytree', 'os.removexattr',
            'os.setxattr', 'open'}
READING = {'os.listdir', 'os.scandir'}
OTHER = {'tempfile.mkdtemp'}


def _hook(event, args):
    m = _active
    if m is None:
        return
    if event in MUTATING or event in READING or event in OTHER:
        m.on_event(event, args)


def install():
    global _installed
    if not _installed:
        sys.addaudithook(_hook)
        _installed = True


def _s(p):
    if isinstance(p, bytes):
        return os.fsdecode(p)
    if isinstance(p, int):
        return '<fd:%d>' % p
    try:
        return os.fspath(p)
    except TypeError:
        return repr(p)


class Fault:
    """raise exc at the k-th matching library event (1-based)"""

    def __init__(self, k, kinds, phases, make_exc, realistic=True):
        self.realistic = realistic
        self.k = k
        self.kinds = kinds
        self.phases = phases
        self.make_exc = make_exc
        self.count = 0
        self.fired = None    # event record of the injected fault
        self.exc = None
        self.on_fire = None
        self.path_in_tmp = False    # True: only events whose first path lies in the private temp dir


def realistic_fault(kind, paths):
    """Only inject where the real call could fail that way: mkdir of an existing
    entry always reports FileExistsError (which os.makedirs(exist_ok=True) and the
    library legitimately swallow), rename/remove of a missing source always reports
    FileNotFoundError."""
    try:
        if kind == 'os.mkdir':
            if not os.path.lexists(paths[0]):
                return True
            # mkdir of an existing entry: os.makedirs(exist_ok=True) treats ANY OSError as
            # "already there" (stdlib behaviour), so a fault there can never surface; a direct
            # os.mkdir of the library can still fail differently (e.g. EACCES on the parent)
            f = sys._getframe(1)
            depth = 0
            while f is not None and depth < 12:
                if f.f_code.co_name == 'makedirs' and ('frozen os' in f.f_code.co_filename or f.f_code.co_filename.endswith('os.py')):
                    return False
                if f.f_code.co_name == 'mkdir' and 'pathlib' in f.f_code.co_filename and f.f_locals.get('exist_ok'):
                    # pathlib.Path.mkdir(exist_ok=True) treats any OSError on an existing directory the same way
                    return False
                f = f.f_back
                depth += 1
            return 'existing'
        if kind in ('os.rename', 'os.remove', 'os.rmdir'):
            return os.path.lexists(paths[0])
    except OSError:
        return False
    return True


class FsMonitor:
    def __init__(self, sb, tmp):
        self.sb = sb
        self.tmp = tmp
        self.events = []
        self.phase = 'outside'
        self.lock = threading.Lock()
        self.fault = None
        self.armed = False
        self.on_lib_event = None    # optional callback(event record) - e.g. yield injection
        self.counts = {}
        self.clock = None           # optional logical clock shared with the interpreter (C17)

    # ---- arming
    def __enter__(self):
        global _active
        install()
        self.armed = True
        _active = self
        return self

    def __exit__(self, *a):
        global _active
        self.armed = False
        _active = None

    def enter_user(self):
        _tls.user = getattr(_tls, 'user', 0) + 1

    def exit_user(self):
        _tls.user -= 1

    def set_phase(self, ph):
        self.phase = ph

    # ---- event handling
    def on_event(self, event, args):
        if not self.armed:
            return
        user = getattr(_tls, 'user', 0) > 0
        kind = event
        paths = []
        relfd = False
        if event == 'open':
            path, mode, flags = args[0], args[1], args[2]
            if not isinstance(flags, int) or not (flags & WRITE_FLAGS):
                return
            if isinstance(path, int):
                return
            kind = 'open_w'
            paths = [_s(path)]
        elif event == 'os.rename':
            paths = [_s(args[0]), _s(args[1])]
            relfd = (args[2] not in (None, -1)) or (args[3] not in (None, -1))
        elif event in ('os.remove', 'os.rmdir', 'os.mkdir'):
            paths = [_s(args[0])]
            dfd = args[-1]
            relfd = dfd not in (None, -1)
        elif event in ('os.link', 'os.symlink', 'shutil.move', 'shutil.copyfile',
                       'shutil.copytree'):
            paths = [_s(args[0]), _s(args[1])]
        elif event == 'tempfile.mkdtemp':
            paths = [_s(args[0])]
        else:
            paths = [_s(args[0])] if args else []
        if relfd:
            paths = ['<dirfd>/' + p for p in paths]
        else:
            paths = [os.path.abspath(p) if not p.startswith('<') else p for p in paths]
        rec = {'ev': kind, 'paths': paths, 'phase': self.phase, 'user': user,
               'thread': threading.get_ident()}
        if not user and not relfd and kind in ('os.mkdir', 'os.rename', 'os.remove', 'os.rmdir'):
            rec['realistic'] = realistic_fault(kind, paths)
        if self.clock is not None:
            rec['clk'] = self.clock()
        with self.lock:
            rec['seq'] = len(self.events)
            self.events.append(rec)
            key = (kind, self.phase, 'user' if user else 'lib')
            self.counts[key] = self.counts.get(key, 0) + 1
        if user:
            return
        f = self.fault
        if f is not None and f.fired is None and kind in f.kinds and self.phase in f.phases \
                and not relfd and (not f.realistic or rec.get('realistic', True)) \
                and (not f.path_in_tmp or (paths and (paths[0] + '/').startswith(self.tmp + '/'))):
            with self.lock:
                f.count += 1
                hit = f.count == f.k
                if hit:
                    f.fired = rec
            if hit:
                rec['injected'] = True
                f.exc = f.make_exc(paths[0] if paths else None)
                if f.on_fire is not None:
                    f.on_fire()
                raise f.exc
        cb = self.on_lib_event
        if cb is not None:
            cb(rec)

    # ---- queries
    def lib_mutations(self):
        return [e for e in self.events if not e['user'] and
                (e['ev'] in MUTATING or e['ev'] == 'open_w')]

    def summary(self):
        return {'%s|%s|%s' % k: v for k, v in sorted(self.counts.items())}


def classify_lib_mutations(mon, allowed_files, allowed_rmdirs, tmp, cache):
    """C03 online assertion, evaluated after the call: every mutating event of the
    library must target the cache file, a managed output path, the private temp
    dir, or (rmdir/mkdir) a directory the library may create/remove.
    Returns list of offending events."""
    bad = []
    made = set()
    for e in mon.events:
        if e['user']:
            continue
        ev, paths = e['ev'], e['paths']
        if ev in READING or ev == 'tempfile.mkdtemp':
            continue
        if any(p.startswith('<dirfd>/') for p in paths):
            continue  # rmtree of the backup area (root checked at the shutil.rmtree event)
        if ev == 'os.mkdir':
            made.add(paths[0])
            continue
        if ev == 'shutil.rmtree':
            if not paths[0].startswith(tmp + '/'):
                bad.append(e)
            continue
        if ev == 'os.rmdir':
            p = paths[0]
            if p in made or p in allowed_rmdirs or p.startswith(tmp + '/'):
                continue
            bad.append(e)
            continue
        if ev == 'os.rename':
            src, dst = paths
            for p in (src, dst):
                if p.startswith(tmp + '/') or p == cache or p in allowed_files:
                    continue
                bad.append(e)
                break
            continue
        # remove / open_w / truncate / utime / chmod / others
        p = paths[0] if paths else ''
        if p.startswith(tmp + '/') or p == cache or p in allowed_files:
            continue
        bad.append(e)
    return bad
