"""E6: baton scheduler.  Managed threads execute library code only while they
hold the baton; every LINE event inside file_builder/*.py and every lock
operation is a yield point at which the strategy may hand the baton to another
runnable thread.  threading.Lock inside the library is replaced by SLock, so a
thread that finds a lock taken is *marked blocked* (it never really blocks):
"no runnable thread while some are unfinished" is a deadlock, detected
logically, with the schedule as witness."""
import hashlib
import os
import sys
import threading
import _thread
import types

from . import env

TOOL = 3
_installed = False
SCHED = None            # the active scheduler (one at a time per process)
NCODE = 0


class Deadlock(Exception):
    pass


class SLock:
    """scheduler-aware replacement for threading.Lock inside the library"""

    def __init__(self):
        self.real = _thread.allocate_lock()
        self.owner = None
        # creating a lock is a schedule point too: a lazily created lock (created on first use instead of
        # in __init__) can be created twice by two threads that then exclude nobody
        s = SCHED
        if s is not None and s.managed():
            # monitor: one lock per (object, creation site).  A second lock created at the same source
            # line for the same `self` by another thread means the lock is created lazily and two threads
            # raced through its creation: from then on they exclude nobody.  (The owner object is kept
            # alive in the table, so its id cannot be reused within the schedule.)
            try:
                f = sys._getframe(1)
                while f is not None and not f.f_code.co_filename.startswith(env.LIB_DIR):
                    f = f.f_back
                if f is not None and 'self' in f.f_locals:
                    owner = f.f_locals['self']
                    key = (id(owner), f.f_code.co_filename, f.f_lineno)
                    tab = s.__dict__.setdefault('lock_sites', {})
                    ent = tab.get(key)
                    me = _thread.get_ident()
                    if ent is None:
                        tab[key] = [owner, me]
                    elif ent[1] != me and not getattr(s, 'double_lock', None):
                        s.double_lock = {'class': type(owner).__name__, 'file': os.path.basename(key[1]),
                                         'line': key[2]}
            except Exception:
                pass
            s.yield_point(('lock.create', 0))

    def acquire(self, blocking=True, timeout=-1):
        s = SCHED
        if s is None or not s.managed():
            return self.real.acquire(blocking, timeout)
        s.yield_point(('lock.acquire', id(self) & 0xffff))
        while not self.real.acquire(False):
            if not blocking:
                return False
            s.block(self)
        self.owner = _thread.get_ident()
        s.note_acquire(self)
        return True

    def release(self):
        self.owner = None
        self.real.release()
        s = SCHED
        if s is not None and s.managed():
            s.wake(self)
            s.yield_point(('lock.release', id(self) & 0xffff))

    def locked(self):
        return self.real.locked()

    def __enter__(self):
        self.acquire()
        return self

    def __exit__(self, *a):
        self.release()


class SRLock(SLock):
    """scheduler-aware replacement for threading.RLock inside the library (re-entrant: the owner may
    acquire again without a schedule point)"""

    def __init__(self):
        SLock.__init__(self)
        self.depth = 0

    def acquire(self, blocking=True, timeout=-1):
        if self.owner == _thread.get_ident() and self.depth > 0:
            self.depth += 1
            return True
        ok = SLock.acquire(self, blocking, timeout)
        if ok:
            self.owner = _thread.get_ident()
            self.depth = 1
        return ok

    def release(self):
        if self.owner != _thread.get_ident() or self.depth == 0:
            raise RuntimeError('cannot release un-acquired lock')
        self.depth -= 1
        if self.depth == 0:
            SLock.release(self)

    def _is_owned(self):
        return self.owner == _thread.get_ident() and self.depth > 0


class _ThreadingShim:
    def __init__(self, real):
        self._real = real
        self.Lock = SLock
        self.RLock = SRLock

    def __getattr__(self, n):
        return getattr(self._real, n)


def _all_code(c, seen):
    for k in c.co_consts:
        if isinstance(k, types.CodeType) and k not in seen:
            seen.add(k)
            _all_code(k, seen)


def _codes(obj, seen, libdir):
    for v in list(vars(obj).values()):
        f = getattr(v, '__func__', v)
        c = getattr(f, '__code__', None)
        if c is not None and isinstance(c, types.CodeType) and c.co_filename.startswith(libdir):
            if c not in seen:
                seen.add(c)
                _all_code(c, seen)
        elif isinstance(v, type) and getattr(v, '__module__', '').startswith('file_builder') and v not in seen:
            seen.add(v)
            _codes(v, seen, libdir)


def _on_line(code, line):
    s = SCHED
    if s is not None and s.active and s.grain == 'lines' and s.current == _thread.get_ident() \
            and s.managed():
        s.yield_point((os.path.basename(code.co_filename), line))


def install():
    """install the threading shim and the LINE callbacks (idempotent)"""
    global _installed, NCODE
    if _installed:
        return NCODE
    import file_builder.file_builder, file_builder.cache, file_builder.build_dirs  # noqa
    import file_builder.simple_operation_executor, file_builder.file_backups  # noqa
    mods = env.lib_modules()
    for name, m in mods.items():
        if hasattr(m, 'threading') and not isinstance(m.threading, _ThreadingShim):
            m.threading = _ThreadingShim(m.threading)
    mon = sys.monitoring
    mon.use_tool_id(TOOL, 'fbverif-sched')
    mon.register_callback(TOOL, mon.events.LINE, _on_line)
    seen = set()
    for m in mods.values():
        if '.test' in m.__name__:
            continue
        _codes(m, seen, env.LIB_DIR)
    n = 0
    for c in seen:
        if isinstance(c, types.CodeType):
            mon.set_local_events(TOOL, c, mon.events.LINE)
            n += 1
    NCODE = n
    _installed = True
    return n


class Scheduler:
    """strategy: dict with one of
         {'kind': 'none'}                          non-preemptive baseline
         {'kind': 'preempt', 'at': {step: target}}  explicit pre-emptions
         {'kind': 'random', 'p': 0.02, 'seed': n}   uniform random walk
         {'kind': 'pct', 'd': 3, 'seed': n, 'n': N} PCT priorities with d change points
    """

    def __init__(self, strategy=None, watchdog_s=20.0):
        self.strategy = strategy or {'kind': 'none'}
        # yield-point granularity: 'ops' = lock operations + library file-system
        # calls (the quantifier of C09), 'lines' = additionally every source line
        self.grain = self.strategy.get('grain', 'lines')
        self.mu = _thread.allocate_lock()
        self.threads = {}
        self.order = []
        self.current = None
        self.active = False
        self.step = 0
        self.switches = []
        self.deadlock = False
        self.deadlock_info = None
        self.preemptions = 0
        self.watchdog_s = watchdog_s
        self.timed_out = False
        self.lock_edges = set()      # (held lock id, acquired lock id) for the advisory order graph
        self.held = {}
        k = self.strategy.get('kind')
        import random
        self.rng = random.Random(self.strategy.get('seed', 0))
        if k == 'pct':
            n = max(1, self.strategy.get('n', 500))
            d = self.strategy.get('d', 3)
            self.change_points = sorted(self.rng.sample(range(1, n + 1), min(d, n)))
            self.prio = {}
        self.inside_lib_preemptions = 0

    # ---- thread bookkeeping
    def me(self):
        return _thread.get_ident()

    def managed(self):
        t = self.threads.get(_thread.get_ident())
        return t is not None and t['state'] != 'done' and not self.deadlock

    def spawn(self, worker, n):
        """run worker(0..n-1) in n managed threads; returns when all have finished"""
        global SCHED
        done = threading.Event()
        self.done_ev = done
        ths = []

        def body(i):
            ev = threading.Event()
            with self.mu:
                self.threads[self.me()] = {'state': 'run', 'ev': ev, 'name': 'T%d' % i, 'idx': i}
                self.order.append(self.me())
            ev.wait()
            ev.clear()
            try:
                worker(i)
            finally:
                self._exit()
        for i in range(n):
            ths.append(threading.Thread(target=body, args=(i,), daemon=True))
        prev = SCHED
        SCHED = self
        try:
            for t in ths:
                t.start()
            import time
            t0 = time.time()
            while len(self.order) < n:
                time.sleep(0.0002)
                if time.time() - t0 > 5:
                    raise RuntimeError('threads did not start')
            # deterministic order by thread index
            self.order.sort(key=lambda t: self.threads[t]['idx'])
            if self.strategy.get('kind') == 'pct':
                ps = list(range(len(self.order)))
                self.rng.shuffle(ps)
                for t, p in zip(self.order, ps):
                    self.prio[t] = p + 10
            first = self._pick_initial()
            self.current = first
            self.active = True
            self.threads[first]['ev'].set()
            if not done.wait(self.watchdog_s):
                self.timed_out = True
                self.deadlock = True    # stop managing: let everything run free
                for t in self.order:
                    self.threads[t]['ev'].set()
            for t in ths:
                t.join(5)
        finally:
            self.active = False
            SCHED = prev
            if os.environ.get('FBVERIF_TRACE_SWITCHES'):
                print('SWITCHES steps=%d %r' % (self.step, self.switches))

    # ---- fork/join style (C17): the calling thread stays managed and keeps running
    def adopt_current(self, name='T0'):
        """make the calling thread a managed thread holding the baton"""
        global SCHED
        me = self.me()
        if me in self.threads:
            return
        self._prev_sched = SCHED
        SCHED = self
        self.done_ev = threading.Event()
        with self.mu:
            self.threads[me] = {'state': 'run', 'ev': threading.Event(), 'name': name, 'idx': 0}
            self.order.append(me)
        self.current = me
        self.active = True

    def fork(self, worker, name=None):
        """start a managed thread; the caller keeps the baton"""
        self.adopt_current()
        ready = threading.Event()
        idx = len(self.order)

        def body():
            ev = threading.Event()
            with self.mu:
                self.threads[self.me()] = {'state': 'run', 'ev': ev, 'name': name or 'T%d' % idx, 'idx': idx}
                self.order.append(self.me())
            ready.set()
            ev.wait()
            ev.clear()
            try:
                worker()
            finally:
                self._exit()
        t = threading.Thread(target=body, daemon=True)
        t.start()
        if not ready.wait(5):
            raise RuntimeError('forked thread did not start')
        self._forked = getattr(self, '_forked', []) + [t]
        self.fork_steps = getattr(self, 'fork_steps', []) + [self.step]
        self.yield_point(('fork', idx))
        return t

    def join_all(self):
        """the (managed) caller waits for all forked threads, then leaves management"""
        global SCHED
        me = self.me()
        if me not in self.threads:
            return
        while not self.deadlock:
            others = [t for t in self.order if t != me and self.threads[t]['state'] != 'done']
            if not others:
                break
            r = [t for t in others if self.threads[t]['state'] == 'run']
            if not r:
                self.deadlock = True
                self.deadlock_info = {'threads': {self.threads[t]['name']: self.threads[t]['state']
                                                  for t in self.order}, 'switches': self.switches[-12:]}
                for t in others:
                    self.threads[t]['ev'].set()
                break
            self.threads[me]['state'] = 'joining'
            self._switch_to(r[0], 'join')
            self.threads[me]['state'] = 'run'
        self.threads[me]['state'] = 'done'
        self.active = False
        for t in getattr(self, '_forked', []):
            t.join(5)
            if t.is_alive():
                self.timed_out = True
        SCHED = getattr(self, '_prev_sched', None)

    def _pick_initial(self):
        if self.strategy.get('kind') == 'pct':
            return max(self.order, key=lambda t: self.prio[t])
        if self.strategy.get('first') is not None:
            return self.order[self.strategy['first'] % len(self.order)]
        return self.order[0]

    def _runnable(self):
        return [t for t in self.order if self.threads[t]['state'] == 'run']

    def _switch_to(self, t, why):
        me = self.me()
        if t == me:
            return
        self.switches.append((self.step, self.threads[me]['name'], self.threads[t]['name'], why))
        self.current = t
        self.threads[t]['ev'].set()
        if self.threads[me]['state'] != 'done':
            ev = self.threads[me]['ev']
            ev.wait()
            ev.clear()
            if self.deadlock and self.threads[me]['state'] == 'blocked':
                raise Deadlock()

    # ---- yield points
    def yield_point(self, tag):
        if self.deadlock:
            return
        me = self.me()
        self.step += 1
        if isinstance(tag[0], str) and tag[0].startswith('lock.'):
            # synchronisation operations are where a pre-emption matters most: remember them
            lt = self.__dict__.setdefault('lock_trace', [])
            if len(lt) < 4000:
                lt.append((self.step, self.threads.get(me, {}).get('idx'), tag[0]))
        k = self.strategy.get('kind')
        target = None
        if k == 'preempt':
            tgt = self.strategy['at'].get(self.step)
            if tgt is not None:
                r = [t for t in self._runnable() if t != me]
                if r:
                    target = r[tgt % len(r)]
        elif k == 'preempt2':
            # directed pair: the FIRST thread is pre-empted at its k1-th lock/file-system operation; the thread
            # that takes over is pre-empted at its j-th source line executed while it holds NO lock (the places
            # where a check-then-act on shared state can be interleaved); the first thread then carries on
            is_ops = isinstance(tag[0], str) and (tag[0] == 'fs' or tag[0].startswith('lock.'))
            ph = self.__dict__.setdefault('p2_phase', 0)
            if ph == 0 and is_ops and me == self._pick_initial():
                self.p2_ops = self.__dict__.get('p2_ops', 0) + 1
                if self.p2_ops == self.strategy['k1']:
                    r = [t for t in self._runnable() if t != me]
                    if r:
                        target = r[0]
                        self.p2_phase = 1
                        self.p2_thread = target
                        self.p2_lines = 0
                        self.p2_trace = []
            elif ph == 1 and me == self.p2_thread and not is_ops and not self.held.get(me):
                self.p2_lines += 1
                if len(self.p2_trace) < 5000:
                    self.p2_trace.append(tag)
                if self.p2_lines == self.strategy['j']:
                    self.p2_phase = 2
                    first = self._pick_initial()
                    if first in self._runnable():
                        target = first
        elif k == 'preempt_unlocked':
            # single pre-emption of the FIRST thread at its j-th source line executed while it holds no lock
            is_ops = isinstance(tag[0], str) and (tag[0] == 'fs' or tag[0].startswith('lock.'))
            if not is_ops and me == self._pick_initial() and not self.held.get(me) \
                    and not self.__dict__.get('pu_done'):
                self.pu_lines = self.__dict__.get('pu_lines', 0) + 1
                if self.pu_lines == self.strategy['j']:
                    self.pu_done = True
                    r = [t for t in self._runnable() if t != me]
                    if r:
                        target = r[0]
        elif k == 'random':
            if self.rng.random() < self.strategy.get('p', 0.02):
                r = [t for t in self._runnable() if t != me]
                if r:
                    target = self.rng.choice(r)
        elif k == 'pct':
            if self.change_points and self.step >= self.change_points[0]:
                self.change_points.pop(0)
                self.prio[me] = -self.step      # lowest so far
            r = self._runnable()
            for t in r:
                if t not in self.prio:
                    self.prio[t] = self.rng.randint(10, 20)
            best = max(r, key=lambda t: self.prio[t])
            if best != me:
                target = best
        if target is not None:
            self.preemptions += 1
            if isinstance(tag[0], str) and (tag[0].endswith('.py') or tag[0] in ('fs', 'lock.acquire', 'lock.release')):
                self.inside_lib_preemptions += 1
            self._switch_to(target, tag)

    def fs_yield(self, rec):
        """called from the audit hook for every library file-system event"""
        if self.active and self.managed() and self.current == _thread.get_ident():
            self.yield_point(('fs', rec['ev']))

    def note_acquire(self, lock):
        me = self.me()
        held = self.held.setdefault(me, [])
        for h in held:
            self.lock_edges.add((id(h), id(lock)))
        held.append(lock)

    def block(self, lock):
        me = self.me()
        self.threads[me]['state'] = 'blocked'
        self.threads[me]['on'] = lock
        r = self._runnable()
        if not r:
            self.deadlock = True
            self.deadlock_info = {
                'threads': {self.threads[t]['name']: self.threads[t]['state'] for t in self.order},
                'switches': self.switches[-12:]}
            for t in self.order:
                if t != me:
                    self.threads[t]['ev'].set()
            raise Deadlock()
        nxt = r[0]
        if self.strategy.get('kind') == 'pct':
            nxt = max(r, key=lambda t: self.prio.get(t, 0))
        self._switch_to(nxt, 'blocked')
        self.threads[me]['state'] = 'run'

    def wake(self, lock):
        me = self.me()
        h = self.held.get(me)
        if h and lock in h:
            h.remove(lock)
        for t in self.order:
            th = self.threads[t]
            if th['state'] == 'blocked' and th.get('on') is lock:
                th['state'] = 'run'

    def _exit(self):
        me = self.me()
        self.threads[me]['state'] = 'done'
        if self.deadlock:
            if all(self.threads[t]['state'] == 'done' for t in self.order):
                self.done_ev.set()
            return
        r = self._runnable()
        if not r:
            r = [t for t in self.order if self.threads[t]['state'] == 'joining']
        if r:
            nxt = r[0]
            if self.strategy.get('kind') == 'pct' and nxt in getattr(self, 'prio', {}):
                nxt = max(r, key=lambda t: self.prio.get(t, 0))
            self.switches.append((self.step, self.threads[me]['name'], self.threads[nxt]['name'], 'exit'))
            self.current = nxt
            self.threads[nxt]['ev'].set()
        else:
            blocked = [t for t in self.order if self.threads[t]['state'] == 'blocked']
            if blocked:
                self.deadlock = True
                self.deadlock_info = {'threads': {self.threads[t]['name']: self.threads[t]['state']
                                                  for t in self.order}, 'switches': self.switches[-12:]}
                for t in blocked:
                    self.threads[t]['ev'].set()
            self.done_ev.set()

    def signature(self):
        s = repr([(a, b, c) for (_st, a, b, c) in self.switches]) + repr([st for (st, _a, _b, _c) in self.switches])
        return hashlib.sha1(s.encode()).hexdigest()[:16]
