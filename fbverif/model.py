"""Reference model: a from-scratch implementation of the *documented*
FileBuilder semantics on an in-memory tree.  It contains no caching logic:
every build_file/subbuild function is always called.  While executing it
records a trace forest, and for each finished complex operation decides
whether a correct cache *could* have served it from the previous committed
build ("reusable") -- see DESIGN.md 1.2.

The model exposes the same API as file_builder.FileBuilder, so one interpreter
drives both.  Paths are absolute strings (same strings as the real run).
"""
import copy
import errno
import hashlib
import io
import os
import threading

from .jsonref import canon, roundtrip

NAME_MAX = 255


class Stamp:
    """symbolic mtime of a file written by the model's own build"""
    _n = [0]

    @classmethod
    def fresh(cls):
        cls._n[0] += 1
        return ('o', cls._n[0])


def parent(p):
    return os.path.dirname(p)


def ancestors(p):
    out = []
    while True:
        q = os.path.dirname(p)
        if q == p:
            return out
        out.append(q)
        p = q


def sanitize_path(p):
    return str(os.path.abspath(os.fsdecode(p)))


def cmpval(entry, mode):
    """comparison value of a file entry ('f', bytes, stamp)"""
    if mode == 'HASH':
        return ('H', hashlib.sha256(entry[1]).hexdigest())
    return ('M', len(entry[1]), entry[2])


class Node(dict):
    """trace node of a complex operation"""
    __getattr__ = dict.__getitem__

    def __setattr__(self, k, v):
        self[k] = v

    def __hash__(self):
        return id(self)

    def __eq__(self, other):
        return self is other


def new_node(t, key, func, args, kwargs, ver, path=None, cmp=None):
    return Node(t=t, key=key, func=func, args=canon(args), kwargs=canon(kwargs),
                rargs=args, rkwargs=kwargs, ver=canon(ver), path=path, cmp=cmp,
                raised=False, setup=False, ret=None, cret=None, out=None, sub=[],
                reusable=False, taint=False, why=None)


def iter_nodes(children):
    for c in children:
        if isinstance(c, Node):
            yield c
            yield from iter_nodes(c.sub)


def has_setup(n):
    return any(c.setup for c in iter_nodes(n.sub))


def same_trace(a, b):
    if isinstance(a, Node) != isinstance(b, Node):
        return False
    if not isinstance(a, Node):
        return a == b
    # return values are not compared: with equal observations they are equal by
    # determinism, except where METADATA is documentedly blind to a content change
    # (C13) - and there a correct cache serves the recorded value
    if (a.t, a.key, a.func, a.args, a.kwargs, a.ver, a.raised, a.setup) != \
            (b.t, b.key, b.func, b.args, b.kwargs, b.ver, b.raised, b.setup):
        return False
    if len(a.sub) != len(b.sub):
        return False
    return all(same_trace(x, y) for x, y in zip(a.sub, b.sub))


class Record:
    def __init__(self, forest, outputs, created_dirs, versions, build_name):
        self.forest = forest
        self.outputs = outputs              # set of paths
        self.created_dirs = created_dirs    # set of paths
        self.versions = versions
        self.build_name = build_name
        self.index = {}
        for n in iter_nodes(forest):
            if not n.setup:
                self.index[n.key] = n


class Model:
    """disk: abs path -> ('d',) | ('f', bytes, stamp)."""

    def __init__(self, sb, cache):
        self.sb = sb
        self.cache = cache
        self.disk = {}
        for a in [sb] + ancestors(sb):
            self.disk[a] = ('d',)
        self.record = None

    # --- helpers on a tree dict
    @staticmethod
    def children(fs, d):
        pre = d.rstrip('/') + '/'
        n = len(pre)
        return [k for k in fs if k.startswith(pre) and '/' not in k[n:] and k != d]

    def has_cache(self):
        e = self.disk.get(self.cache)
        return e is not None and e[0] == 'f'

    def current_record(self):
        return self.record if self.has_cache() else None

    def virtual_start(self):
        v = dict(self.disk)
        rec = self.current_record()
        if v.get(self.cache, ('x',))[0] == 'f':
            del v[self.cache]
        if rec is not None:
            for p in rec.outputs:
                if v.get(p, ('x',))[0] == 'f':
                    del v[p]
            for d in sorted(rec.created_dirs, key=lambda s: -len(s)):
                if v.get(d, ('x',))[0] == 'd' and not self.children(v, d):
                    del v[d]
        return v

    def clean(self, build_name=None):
        """documented effect of FileBuilder.clean"""
        e = self.disk.get(self.cache)
        if e is None:
            return
        if e[0] == 'd':
            raise IsADirectoryError(self.cache)
        rec = self.record
        if rec is None:
            raise RuntimeError('model has no record for an existing cache file')
        if build_name is not None and build_name != rec.build_name:
            raise RuntimeError('build name mismatch')
        for p in rec.outputs:
            if self.disk.get(p, ('x',))[0] == 'f':
                del self.disk[p]
        del self.disk[self.cache]
        for d in sorted(rec.created_dirs, key=lambda s: -len(s)):
            if self.disk.get(d, ('x',))[0] == 'd' and not self.children(self.disk, d):
                del self.disk[d]
        self.record = None

    # --- external mutations (harness applies the same to the real tree)
    def ext_put_file(self, p, data, stamp):
        for a in reversed(ancestors(p)):
            self.disk.setdefault(a, ('d',))
        self.disk[p] = ('f', data, stamp)

    def ext_mkdir(self, p):
        for a in reversed(ancestors(p)):
            self.disk.setdefault(a, ('d',))
        self.disk.setdefault(p, ('d',))

    def ext_delete(self, p):
        for k in [k for k in self.disk if k == p or k.startswith(p + '/')]:
            del self.disk[k]


class MBuild:
    """One from-scratch build on the model."""

    def __init__(self, model, build_name, versions):
        self.m = model
        self.build_name = build_name
        self.versions = roundtrip(versions)
        self.prev = model.current_record()
        self.v = model.virtual_start()
        self.inprog = set()
        self.pending = {}
        self.claimed_files = set()
        self.claimed_subs = set()
        self.done_files = {}
        self.created = set()
        self.created_cache = []
        self.destroyed = set()   # previous outputs moved aside to make room for a target of this build
        self.roots = []
        self.lock = threading.RLock()
        self.root_finished = False
        self.error_removed = set()   # dirs this build created and removed again (failed outputs)
        self.setup_fail = {}     # key (abs target | sb key) -> exception instance, or
        #                          (key, ordinal) -> exception for the n-th call with that key
        self.call_counts = {}
        self.fixed = set()       # outputs written by a timestamp-preserving generator
        # the directories that hold the cache file: made at the start of the build when missing, but -
        # like the cache file itself - not part of the view the functions see ("as if the cache file
        # and the directories created [for it] were gone"); an output built below one of them creates
        # it virtually like any other directory
        for a in reversed(ancestors(model.cache)):
            if a not in self.v:
                self.created_cache.append(a)
            elif self.v[a][0] != 'd':
                raise NotADirectoryError(a)

    # ---------------------------------------------------------------- view
    def kind(self, p):
        if p in self.inprog or p == self.m.cache:
            return None
        e = self.v.get(p)
        if e is None:
            return None
        return e[0]

    def version_of(self, func_name):
        return self.versions.get(func_name)

    # ---------------------------------------------------------------- files
    def begin_file(self, p):
        if p in self.claimed_files:
            raise RuntimeError('Building the same file twice is not allowed')
        if p == self.m.cache:
            raise RuntimeError('build_file* may not write to the cache file')
        if self.kind(p) == 'd':
            raise IsADirectoryError(p)
        need = []
        for a in ancestors(p):
            if a == self.m.cache:
                raise NotADirectoryError(p)
            k = self.kind(a)
            if k == 'd':
                break
            if k == 'f' or a in self.inprog:
                raise NotADirectoryError(p)
            need.append(a)
        for a in reversed(need):       # in creation order: the first level that cannot be made decides
            if '\0' in os.path.basename(a):
                raise ValueError('embedded null byte')      # what the OS layer of Python answers
            if len(os.fsencode(os.path.basename(a))) > NAME_MAX:
                raise OSError(errno.ENAMETOOLONG, 'File name too long', a)
        for a in reversed(need):
            self.v[a] = ('d',)
            self.created.add(a)
            self.error_removed.discard(a)
        if self.prev is not None:
            # making room: an output of the previous build that lies below the new target (the target
            # was a directory then) or at one of the directories now created for it (the directory was
            # an output file then) is moved aside for good - physically it cannot coexist with this
            # call, whether the call succeeds or not - so a later request for it in this build cannot
            # be served from the cache ("a recorded output no longer matches")
            for q in self.prev.outputs:
                if q.startswith(p + '/') or q in need:
                    self.destroyed.add(q)
        clobbered = self.v.pop(p, None) is not None
        self.claimed_files.add(p)
        self.inprog.add(p)
        return clobbered

    def user_write(self, p, data, fixed_stamp=False):
        if p not in self.inprog:
            raise AssertionError('program writes outside its own build_file: %s' % p)
        if '\0' in p:
            raise ValueError('embedded null byte')
        if len(os.fsencode(os.path.basename(p))) > NAME_MAX:
            raise OSError(errno.ENAMETOOLONG, 'File name too long', p)
        self.pending[p] = data
        if fixed_stamp:
            self.fixed.add(p)
        else:
            self.fixed.discard(p)

    def fail_file(self, p):
        self.inprog.discard(p)
        self.pending.pop(p, None)
        self.v.pop(p, None)
        for a in ancestors(p):
            if a in self.created and not self.m.children(self.v, a) and \
                    not any(q.startswith(a + '/') for q in self.inprog):
                del self.v[a]
                self.created.discard(a)
                self.error_removed.add(a)
            else:
                break

    # ---------------------------------------------------------------- reuse
    def outputs_intact(self, r):
        for x in [r] + list(iter_nodes(r.sub)):
            if x.t == 'bf' and not x.raised:
                if x.path in self.destroyed:
                    return False
                e = self.m.disk.get(x.path)
                if e is None or e[0] != 'f' or cmpval(e, x.cmp) != x.out:
                    return False
        return True

    def decide_reusable(self, node):
        node.reusable = False
        if self.prev is None:
            node.why = 'no-record'
            return False
        r = self.prev.index.get(node.key)
        if r is None:
            node.why = 'no-record'
        elif r.func != node.func or r.args != node.args or r.kwargs != node.kwargs:
            node.why = 'name-or-args'
        elif r.raised:
            node.why = 'record-raised'
        elif node.raised:
            node.why = 'raises-now'
        elif has_setup(r) or has_setup(node):
            node.why = 'setup-failed-inside'
        elif any(x.t == 'bf' and x.raised and x.get('clobbered')
                 for x in iter_nodes(node.sub)):
            # a failed nested build_file whose target is occupied now: its recorded
            # (absent) comparison result no longer matches, and from scratch the
            # occupying file is removed
            node.why = 'failed-target-occupied'
        elif not self.outputs_intact(r):
            node.why = 'output-changed'
        elif not same_trace(node, r):
            node.why = 'trace-differs'
        else:
            node.reusable = True
            node.why = 'reusable'
        return node.reusable


class MBuilder:
    """Model counterpart of the FileBuilder instance handed to functions."""

    def __init__(self, mb, node):
        self._mb = mb
        self._node = node
        self._finished = False

    # -- internals
    def _check(self):
        if self._finished:
            raise RuntimeError('This FileBuilder instance has already finished executing')

    def _append(self, item):
        self._check()
        with self._mb.lock:
            if self._node is None:
                self._mb.roots.append(item)
            else:
                self._node.sub.append(item)

    def _simple(self, name, args, fn):
        self._check()
        try:
            with self._mb.lock:
                val, tval = fn()
            ans = ('ok', tval)
        except OSError as e:
            cls = e.__class__.__name__
            self._append(('q', name, args, ('err', cls)))
            raise
        self._append(('q', name, args, ans))
        return val

    # -- queries
    def is_file(self, p):
        p = sanitize_path(p)
        return self._simple('is_file', (p,), lambda: (self._mb.kind(p) == 'f',) * 2)

    def is_dir(self, p):
        p = sanitize_path(p)
        return self._simple('is_dir', (p,), lambda: (self._mb.kind(p) == 'd',) * 2)

    def exists(self, p):
        p = sanitize_path(p)
        return self._simple('exists', (p,), lambda: (self._mb.kind(p) is not None,) * 2)

    def _list(self, p):
        mb = self._mb
        k = mb.kind(p)
        if k == 'f':
            raise NotADirectoryError(p)
        if k is None:
            raise FileNotFoundError(p)
        return sorted(os.path.basename(c) for c in mb.m.children(mb.v, p) if mb.kind(c))

    def list_dir(self, p):
        p = sanitize_path(p)

        def fn():
            names = self._list(p)
            self._taint_if_cache_dir_listed(p)
            return list(names), tuple(names)
        return self._simple('list_dir', (p,), fn)

    def _taint_if_cache_dir_listed(self, p):
        """directories that exist only to hold the cache file: whether a listing shows
        them is unspecified (C04 latitude), so a re-execution caused by such a listing
        cannot be judged (C05)"""
        return      # no latitude any more (D16 repaired): such directories are never part of the view
        if self._node is None:
            return
        pre = p.rstrip('/') + '/'
        for c in ancestors(self._mb.m.cache):
            if c.startswith(pre) and c.startswith(self._mb.m.sb + '/'):
                self._node.taint = True
                return

    def walk(self, p, top_down=True):
        if not isinstance(top_down, bool):
            raise TypeError('top_down must be a boolean')
        p = sanitize_path(p)
        mb = self._mb

        def fn():
            res = []
            if mb.kind(p) != 'd':
                return res, ()
            self._taint_if_cache_dir_listed(p)

            def rec(d):
                names = self._list(d)
                subd = [n for n in names if mb.kind(os.path.join(d, n)) == 'd']
                subf = [n for n in names if mb.kind(os.path.join(d, n)) == 'f']
                if top_down:
                    res.append((d, subd, subf))
                for n in subd:
                    rec(os.path.join(d, n))
                if not top_down:
                    res.append((d, subd, subf))
            rec(p)
            return res, tuple(sorted((d, tuple(a), tuple(b)) for d, a, b in res))
        return self._simple('walk', (p, top_down), fn)

    def get_size(self, p):
        p = sanitize_path(p)
        mb = self._mb

        def fn():
            k = mb.kind(p)
            if k is None:
                raise FileNotFoundError(p)
            if k == 'd':
                if self._node is not None:
                    self._node.taint = True
                return 'DIRSIZE', 'DIRSIZE'
            n = len(mb.v[p][1])
            return n, n
        return self._simple('get_size', (p,), fn)

    def _read(self, p, mode):
        from .env import FileComparison
        if not isinstance(mode, FileComparison):
            raise TypeError('file_comparison must be an instance of FileComparison')
        mb = self._mb
        mname = mode.name

        def fn():
            k = mb.kind(p)
            if k == 'd':
                raise IsADirectoryError(p)
            if k is None:
                raise FileNotFoundError(p)
            e = mb.v[p]
            return e[1], cmpval(e, mname)
        return self._simple('read', (p, mname), fn)

    def read_text(self, p, file_comparison=None):
        from .env import FileComparison
        data = self._read(sanitize_path(p), file_comparison or FileComparison.METADATA)
        return io.StringIO(data.decode('utf-8'))

    def read_binary(self, p, file_comparison=None):
        from .env import FileComparison
        data = self._read(sanitize_path(p), file_comparison or FileComparison.METADATA)
        return io.BytesIO(data)

    def declare_read(self, p, file_comparison=None):
        from .env import FileComparison
        self._read(sanitize_path(p), file_comparison or FileComparison.METADATA)

    # -- complex operations
    def build_file(self, filename, func_name, func, *args, **kwargs):
        from .env import FileComparison
        return self.build_file_with_comparison(
            filename, FileComparison.METADATA, func_name, func, *args, **kwargs)

    def build_file_with_comparison(self, filename, file_comparison, func_name, func,
                                   *args, **kwargs):
        from .env import FileComparison
        self._check()
        p = sanitize_path(filename)
        if not isinstance(func_name, str):
            raise TypeError('Function name must be a string')
        if not isinstance(file_comparison, FileComparison):
            raise TypeError('file_comparison')
        if not callable(func):
            raise TypeError('func')
        sargs = roundtrip(list(args))
        skw = roundtrip(kwargs)
        mb = self._mb
        node = new_node('bf', ('bf', p), func_name, sargs, skw,
                        mb.version_of(func_name), path=p, cmp=file_comparison.name)
        try:
            try:
                with mb.lock:
                    nth = mb.call_counts.get(p, 0)
                    mb.call_counts[p] = nth + 1
                    inj = mb.setup_fail.get(p) or mb.setup_fail.get((p, nth))
                    if inj is not None:
                        # an injected OS error while preparing this call: the call fails
                        # in setup; the duplicate/cache-file checks come first
                        if p in mb.claimed_files:
                            raise RuntimeError('Building the same file twice is not allowed')
                        raise inj
                    node.clobbered = mb.begin_file(p)
            except Exception:
                node.raised = node.setup = True
                raise
            sub = MBuilder(mb, node)
            try:
                ret = func(sub, p, *copy.deepcopy(sargs), **copy.deepcopy(skw))
                ret = roundtrip(ret)
                with mb.lock:
                    if p not in mb.pending:
                        raise RuntimeError("The build_file* call didn't create that file")
            except Exception:
                node.raised = True
                sub._finished = True
                with mb.lock:
                    mb.fail_file(p)
                raise
            sub._finished = True
            node.ret = ret
            node.cret = canon(ret)
            with mb.lock:
                content = mb.pending.pop(p)
                mb.inprog.discard(p)
                if mb.decide_reusable(node):
                    mb.v[p] = mb.m.disk[p]
                    node.out = cmpval(mb.v[p], node.cmp)
                    # a correct cache serves the RECORDED value: identical to the fresh one by
                    # determinism, except where METADATA is documentedly blind to a content change
                    ret = copy.deepcopy(mb.prev.index[node.key].ret)
                    node.ret = ret
                    node.cret = canon(ret)
                else:
                    mb.v[p] = ('f', content, ('fixed', p) if p in mb.fixed else Stamp.fresh())
                    node.out = cmpval(mb.v[p], node.cmp)
                node.fresh_content = content
                mb.done_files[p] = node
            return copy.deepcopy(ret)
        finally:
            self._append(node)

    def subbuild(self, func_name, func, *args, **kwargs):
        self._check()
        if not isinstance(func_name, str):
            raise TypeError('Function name must be a string')
        if not callable(func):
            raise TypeError('func')
        sargs = roundtrip(list(args))
        skw = roundtrip(kwargs)
        mb = self._mb
        key = ('sb', canon([func_name, sargs, skw]))
        node = new_node('sb', key, func_name, sargs, skw, mb.version_of(func_name))
        try:
            with mb.lock:
                if key in mb.claimed_subs:
                    node.raised = node.setup = True
                    raise RuntimeError('Calling the same subbuild function twice with the '
                                       'same arguments is not allowed')
                nth = mb.call_counts.get(key, 0)
                mb.call_counts[key] = nth + 1
                inj = mb.setup_fail.get(key) or mb.setup_fail.get((key, nth))
                if inj is not None:
                    # injected OS error while re-registering a reused subtree
                    node.raised = node.setup = True
                    raise inj
                mb.claimed_subs.add(key)
            sub = MBuilder(mb, node)
            try:
                ret = func(sub, *copy.deepcopy(sargs), **copy.deepcopy(skw))
                ret = roundtrip(ret)
            except Exception:
                node.raised = True
                raise
            finally:
                sub._finished = True
            node.ret = ret
            node.cret = canon(ret)
            with mb.lock:
                if mb.decide_reusable(node):
                    # see build_file: the recorded value is what a correct cache returns
                    ret = copy.deepcopy(mb.prev.index[node.key].ret)
                    node.ret = ret
                    node.cret = canon(ret)
            return copy.deepcopy(ret)
        finally:
            self._append(node)


class ModelAPI:
    """Model counterpart of the static FileBuilder API bound to one Model."""

    def __init__(self, model):
        self.m = model
        self.last_build = None

    def build_versioned(self, build_name, versions, func, *args, **kwargs):
        m = self.m
        if not isinstance(build_name, str):
            raise TypeError('Build name must be a string')
        if not callable(func):
            raise TypeError('func')
        if not isinstance(versions, dict):
            raise TypeError('versions')
        e = m.disk.get(m.cache)
        if e is not None and e[0] == 'd':
            raise IsADirectoryError(m.cache)
        rec = m.current_record()
        if e is not None and rec is None:
            raise RuntimeError('model: cache file present without a record')
        if rec is not None and rec.build_name != build_name:
            raise RuntimeError('build name mismatch')
        mb = MBuild(m, build_name, versions)
        mb.setup_fail = dict(getattr(self, 'next_setup_fail', None) or {})
        self.next_setup_fail = None
        self.last_build = mb
        root = MBuilder(mb, None)
        try:
            ret = func(root, *args, **kwargs)
        finally:
            root._finished = True
            mb.root_finished = True
        # commit
        v = mb.v
        for a in reversed(ancestors(m.cache)):
            if a not in v:
                v[a] = ('d',)
            elif v[a][0] != 'd':
                # an output was built where a directory of the cache file has to be
                raise NotADirectoryError(a)
        v[m.cache] = ('f', b'<cache>', Stamp.fresh())
        m.disk = v
        created = {d for d in list(mb.created) + mb.created_cache
                   if v.get(d, ('x',))[0] == 'd'}
        m.record = Record(mb.roots, set(mb.done_files), created, mb.versions, build_name)
        return ret

    def build(self, build_name, func, *args, **kwargs):
        return self.build_versioned(build_name, {}, func, *args, **kwargs)

    def clean(self, build_name=None):
        self.m.clean(build_name)


def must_run(mb):
    """keys of the complex operations whose functions a correct cache has to call"""
    out = []

    def rec(children):
        for c in children:
            if isinstance(c, Node):
                if c.setup or c.reusable:
                    continue
                out.append(c)
                rec(c.sub)
    rec(mb.roots)
    return out


def all_invoked_scratch(mb):
    """nodes whose function runs in a from-scratch execution (everything but setup failures)"""
    return [n for n in iter_nodes(mb.roots) if not n.setup]
