"""Statement ['x', 'inner', mode]: while a function of the build under test runs, user code makes an
INDEPENDENT build in the same process - another cache file, another directory, other function
versions - that commits (mode 'ok') or is rolled back (mode 'raise').  Builds that share nothing on
disk share nothing at all: class-level or module-level state of the library (backup lists, memoised
version sets, path caches) would make the outer build depend on the inner one.  The inner build is a
fixed small program judged by direct assertions; the outer build is judged by the model as always
(the statement does not touch the outer sandbox and adds nothing to the accumulator)."""
import os
import threading

from .prog import EXT
from . import env

_lock = threading.Lock()
_count = [0]


class InnerBoom(Exception):
    pass


def st_inner(ctx, fr, s, acc):
    if not ctx.real:
        return acc
    mode = s[2]
    with _lock:
        _count[0] += 1
        n = _count[0]
    base = os.path.join(os.path.dirname(ctx.sb), 'inner_%d' % n)
    mon = ctx.monitor
    if mon is not None:
        mon.enter_user()         # events of the inner build are not events of the build under test
    # a byte-level write fault planned for the cache file of the build under test is not meant for the
    # cache file of the inner build
    from . import faults
    proxy = faults._proxy
    saved_plan = getattr(proxy, 'plan', None) if proxy is not None else None
    if proxy is not None:
        proxy.plan = None
    try:
        os.makedirs(base, exist_ok=True)
        cache = os.path.join(base, 'state', 'cache.gz')
        o1, o2 = os.path.join(base, 'o1'), os.path.join(base, 'd', 'o2')
        calls = []

        def make(tag):
            def ifn(b, fname):
                calls.append(tag)
                env.write_file(fname, ('inner %s' % tag).encode())
                return tag
            return ifn

        def iroot(tag, boom):
            def root(b):
                r = [b.build_file(o1, 'IF', make(tag)), b.build_file(o2, 'IF', make(tag)),
                     b.subbuild('IS', lambda bb: bb.is_file(o1))]
                if boom:
                    raise InnerBoom(tag)
                return r
            return root
        FB = env.FileBuilder
        r1 = FB.build_versioned(cache, 'inner', {'IF': 1}, iroot('v1', False))
        ok = r1 == ['v1', 'v1', True] and calls == ['v1', 'v1']
        del calls[:]
        try:
            r2 = FB.build_versioned(cache, 'inner', {'IF': 2}, iroot('v2', mode == 'raise'))
            raised = False
        except InnerBoom:
            r2, raised = None, True
        want = 'v1' if mode == 'raise' else 'v2'

        def content(p):
            try:
                with open(p, 'rb') as f:
                    return f.read().decode()
            except OSError as e:
                return type(e).__name__
        got = (content(o1), content(o2))
        ok = ok and raised == (mode == 'raise') and calls == ['v2', 'v2'] and got == ('inner ' + want,) * 2 \
            and (raised or r2 == ['v2', 'v2', True])
        with ctx.lock:
            ctx.inner_builds = getattr(ctx, 'inner_builds', 0) + 1
        if not ok:
            ctx.issue('inner_build_wrong', mode=mode, calls=list(calls), files=got, r1=repr(r1)[:60], r2=repr(r2)[:60])
        FB.clean(cache, 'inner')
        left = sorted(os.listdir(base))
        if left:
            ctx.issue('inner_clean_left', left=left[:4])
    except Exception as e:  # noqa
        ctx.issue('inner_build_failed', mode=mode, error=repr(e)[:160])
    finally:
        if proxy is not None:
            proxy.plan = saved_plan
        import shutil
        shutil.rmtree(base, ignore_errors=True)
        if mon is not None:
            mon.exit_user()
    return acc


EXT['inner'] = st_inner
