"""Trusted-base cross-check: does the audit hook see every mutating system call the
library makes?  A child process runs random histories under `strace -f`; every
mkdir/rmdir/unlink/rename/open-for-write system call on a path of a sandbox that was
issued while an API call was in progress must have a matching audit event."""
import json
import os
import re
import subprocess
import sys
import tempfile

from .env import VERIF, scratch_base

LINE = re.compile(r'^(\d+)\s+(\w+)\((.*)\)\s+=\s+(-?\d+|\?)')
STR = re.compile(r'"((?:[^"\\]|\\.)*)"')


def unescape(s):
    try:
        return s.encode('latin-1', 'backslashreplace').decode('unicode_escape').encode('latin-1').decode('utf-8', 'surrogateescape')
    except Exception:
        return s


def run(seed=0, nhist=40):
    base = tempfile.mkdtemp(prefix='fbx_', dir=scratch_base())
    out = os.path.join(base, 'events.json')
    trace = os.path.join(base, 'trace.txt')
    try:
        env = dict(os.environ, PYTHONPATH=VERIF, PYTHONHASHSEED='0')
        cmd = ['strace', '-f', '-qq', '-s', '4096', '-e',
               'trace=mkdir,mkdirat,rmdir,unlink,unlinkat,rename,renameat,renameat2,openat,open,creat',
               '-o', trace, sys.executable, '-m', 'fbverif.xworkload', out, str(seed), str(nhist)]
        r = subprocess.run(cmd, cwd=VERIF, env=env, capture_output=True, text=True, timeout=600)
        if r.returncode != 0 or not os.path.exists(out):
            return {'status': 'inconclusive', 'reason': 'strace child failed: %s' % r.stderr[-300:]}
        data = json.load(open(out))
        roots = data['roots']
        # system calls per API-call window (between the marker mkdirs)
        sys_windows = []
        cur = None
        nsys = 0
        for ln in open(trace, errors='surrogateescape'):
            m = LINE.match(ln)
            if not m:
                continue
            name, args = m.group(2), m.group(3)
            if name == 'mkdir' and '/proc/fbx_begin' in args:
                cur = {}
                continue
            if name == 'mkdir' and '/proc/fbx_end' in args:
                sys_windows.append(cur)
                cur = None
                continue
            if cur is None:
                continue
            paths = [unescape(p) for p in STR.findall(args)]
            paths = [p for p in paths if any(p.startswith(rt + '/sb') or p.startswith(rt + '/tmp') for rt in roots)]
            if not paths:
                continue
            if name in ('openat', 'open', 'creat'):
                if name != 'creat' and not re.search(r'O_WRONLY|O_RDWR|O_CREAT|O_TRUNC|O_APPEND', args):
                    continue
                ev = 'open_w'
                paths = paths[:1]
            elif name in ('mkdir', 'mkdirat'):
                ev = 'os.mkdir'
            elif name == 'rmdir':
                ev = 'os.rmdir'
            elif name == 'unlink':
                ev = 'os.remove'
            elif name == 'unlinkat':
                ev = 'os.rmdir' if 'AT_REMOVEDIR' in args else 'os.remove'
            else:
                ev = 'os.rename'
            nsys += 1
            key = (ev, tuple(paths))
            cur[key] = cur.get(key, 0) + 1
        if len(sys_windows) != len(data['windows']):
            return {'status': 'inconclusive', 'reason': 'window count mismatch %d vs %d' % (
                len(sys_windows), len(data['windows']))}
        holes = []
        phantom = 0
        naudit = 0
        matched = 0
        for sw, aw in zip(sys_windows, data['windows']):
            want = {}
            for e in aw:
                if any(p.startswith('<') for p in e['paths']):
                    continue
                key = (e['ev'], tuple(e['paths']))
                want[key] = want.get(key, 0) + 1
                naudit += 1
            for k, n in sw.items():
                a = want.get(k, 0)
                matched += min(a, n)
                if n > a:
                    holes.append([k[0], list(k[1]), n - a])
            for k, n in want.items():
                if sw.get(k, 0) < n:
                    phantom += n - sw.get(k, 0)
        return {'status': 'ok' if not holes else 'hole', 'api_call_windows': len(sys_windows),
                'mutating_syscalls_in_windows': nsys, 'audit_events_in_windows': naudit,
                'matched': matched, 'syscalls_without_audit_event': len(holes),
                'audit_events_without_syscall': phantom, 'examples': holes[:3], 'builds': data['builds']}
    finally:
        import shutil
        shutil.rmtree(base, ignore_errors=True)


if __name__ == '__main__':
    print(json.dumps(run(int(sys.argv[1]) if len(sys.argv) > 1 else 0, int(sys.argv[2]) if len(sys.argv) > 2 else 20), indent=1))
