"""python -m fbverif.replaycase <replay.json>: re-run a stored violation case."""
import json
import sys
from .replay import replay

if __name__ == '__main__':
    import os
    if os.environ.get('PYTHONHASHSEED') != '0':
        # the shards run with PYTHONHASHSEED=0; set iteration order inside the library can
        # influence event numbering (fault index, schedule step) of a recorded case
        os.execve(sys.executable, [sys.executable, '-m', 'fbverif.replaycase'] + sys.argv[1:],
                  dict(os.environ, PYTHONHASHSEED='0'))
    rec = json.load(open(sys.argv[1]))
    case = rec.get('case', rec)
    if 'sig' in rec:
        print('property', rec.get('property'), 'signature', rec['sig'])
    if 'program' in case:
        if '-p' in sys.argv:
            print(json.dumps(case['program']))
        print('steps', json.dumps(case['steps']))
        srs = replay(case)
        sys.exit(1 if any(sr.divs for sr in srs) else 0)
    else:
        print(json.dumps(case)[:3000])
