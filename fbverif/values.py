"""JSON value grammar shared by C07/C16/C18: collision atoms, bounded-exhaustive
enumeration by size, random deeper values, near-miss mutants."""
import itertools

ATOMS = [None, False, True, 0, 1, 2, 1.0, -0.0, '', '0', 'a', 2 ** 63, float('inf')]
STR_KEYS = ['', '0', 'a']
NONSTR_KEYS = [0, 1, 1.0, True, None, 2 ** 63, float('inf'), -0.0, False]


def sized_values(tuples=True, nonstr_keys=False):
    """all values with <= 3 nodes over ATOMS (sanitized form; optionally with
    tuples and non-string keys).  Returns list of (value, size)."""
    keys = STR_KEYS + (NONSTR_KEYS if nonstr_keys else [])
    s1 = list(ATOMS)
    s2 = []
    for a in s1:
        s2.append([a])
        if tuples:
            s2.append((a,))
        for k in keys:
            s2.append({k: a})
    s2 += [[], {}] + ([()] if tuples else [])
    s3 = []
    for a in s1:
        for b in s1:
            s3.append([a, b])
            if tuples:
                s3.append((a, b))
    for x in s2:
        s3.append([x])
        if tuples:
            s3.append((x,))
        for k in STR_KEYS:
            s3.append({k: x})
    for k1, k2 in itertools.permutations(keys, 2):
        try:
            if k1 == k2 and k1.__class__ is k2.__class__:
                continue
        except Exception:
            pass
        for a in s1:
            for b in s1:
                d = {}
                d[k1] = a
                d[k2] = b
                s3.append(d)
    return [(v, 1) for v in s1] + [(v, 2) for v in s2] + [(v, 3) for v in s3]


def rand_value(rng, depth=3, tuples=False, nonstr_keys=False, big=True):
    r = rng.random()
    if depth <= 0 or r < 0.4:
        pool = ATOMS + ['\U0001F600', 'é', 'a b', -1, 2 ** 53, 2 ** 53 + 1, 1e300, 0.1, -float('inf'),
                        'x' * 40, 10 ** 30, 1 / 3, 0.1234567890123, 3.141592653589793, 2.5e-10, 5e-324,
                        1.7976931348623157e308, -1e-7, 123456789.123456789, -(2 ** 63), 10 ** 20 + 1,
                        '\ud800', 'tab\t', 'nl\n', 'quote"', 'back\\slash', '\x00nul', '\u2028']
        return rng.choice(pool)
    if r < 0.7:
        n = rng.randint(0, 3)
        v = [rand_value(rng, depth - 1, tuples, nonstr_keys) for _ in range(n)]
        return tuple(v) if tuples and rng.random() < 0.4 else v
    n = rng.randint(0, 3)
    d = {}
    for _ in range(n):
        if nonstr_keys and rng.random() < 0.3:
            k = rng.choice(NONSTR_KEYS)
        else:
            k = rng.choice(['', '0', 'a', 'b', 'k', 'é', '1', '1.0', 'true', 'null'])
        d[k] = rand_value(rng, depth - 1, tuples, nonstr_keys)
    return d


def near_misses(rng, v):
    """values that differ from v in exactly one of the ways C07 lists"""
    out = []

    def mutate(x):
        if isinstance(x, bool):
            return [int(x), not x]
        if isinstance(x, int):
            return [float(x) if abs(x) < 2 ** 53 else x + 1, x + 1, bool(x) if x in (0, 1) else str(x), str(x)]
        if isinstance(x, float):
            res = [x + 1.0 if x == x and abs(x) != float('inf') else 0.0]
            if x == x and abs(x) != float('inf') and x.is_integer():
                res.append(int(x))
            if x == 0:
                res.append(-x)
            return res
        if isinstance(x, str):
            return [x + 'z', None]
        if x is None:
            return ['null', 0, False]
        if isinstance(x, (list, tuple)):
            res = [tuple(x) if isinstance(x, list) else list(x), list(x) + [None]]
            if len(x) >= 2:
                res.append(list(reversed(x)))
            if len(x) >= 1:
                res.append(list(x[:-1]))
                for m in mutate(x[0])[:2]:
                    res.append([m] + list(x[1:]))
            return res
        if isinstance(x, dict):
            res = []
            items = list(x.items())
            res.append(dict(reversed(items)))
            if items:
                k, val = items[0]
                res.append(dict(items[1:]))
                for m in mutate(val)[:2]:
                    d = dict(x)
                    d[k] = m
                    res.append(d)
                d = dict(items[1:])
                d[str(k) + 'z'] = val
                res.append(d)
            else:
                res.append({'k': None})
            return res
        return []
    for m in mutate(v):
        out.append(m)
    return out


# ---------------------------------------------------------------- output-guided second preimages
_SKIP = object()


def mined_candidates(to_hashable, v, limit=60):
    """Second-preimage mining for an encoding h = to_hashable: re-read the *observed* encoding of
    every subtree of the sanitized JSON value v in every other plausible way (as a list with or
    without a leading tag, as a flat key/value dict with or without a leading tag, as a scalar,
    as a boolean/empty container) and return the values obtained by substituting that re-reading
    for the subtree.  Nothing is assumed about the encoding except that it is built from tuples
    and scalars; whatever tags it uses are taken from its own output, so a collision between, say,
    a list and a dict that happens to have the tag as a key is constructed rather than guessed."""
    known = {}

    def learn(x):
        try:
            hx = to_hashable(x)
            hash(hx)
        except Exception:
            return
        try:
            known.setdefault((hx.__class__.__name__, hx), x)
        except TypeError:
            pass
        if isinstance(x, list):
            for e in x:
                learn(e)
        elif isinstance(x, dict):
            for e in x.values():
                learn(e)

    learn(v)

    def child(e):
        k = (e.__class__.__name__, e)
        if k in known:
            return known[k]
        if isinstance(e, tuple):
            return _SKIP
        return e

    def reread(hx):
        out = []
        if not isinstance(hx, tuple):
            return [[hx], {str(hx): None} if isinstance(hx, str) else [hx, None]]
        elems = list(hx)
        for off in (0, 1):
            if off > len(elems):
                continue
            rest = [child(e) for e in elems[off:]]
            if any(r is _SKIP for r in rest):
                continue
            out.append(list(rest))
            if len(rest) % 2 == 0 and all(isinstance(rest[i], str) for i in range(0, len(rest), 2)):
                out.append({rest[i]: rest[i + 1] for i in range(0, len(rest), 2)})
            if len(rest) == 1:
                out.append(rest[0])
        if len(elems) <= 1:
            out += [True, False, None, [], {}, 0, 1, 2]
        if elems and isinstance(elems[0], (str, int)) and not isinstance(elems[0], bool):
            # the leading element taken as data of the *other* container kind
            tag = elems[0]
            rest = [child(e) for e in elems[1:]]
            if not any(r is _SKIP for r in rest):
                out.append([tag] + rest)
                if len(rest) == 1:
                    out.append({str(tag): rest[0]})
        return out

    def paths(x, p=()):
        yield p, x
        if isinstance(x, list):
            for i, e in enumerate(x):
                yield from paths(e, p + (i,))
        elif isinstance(x, dict):
            for k, e in x.items():
                yield from paths(e, p + (k,))

    def subst(x, p, new):
        if not p:
            return new
        if isinstance(x, list):
            y = list(x)
            y[p[0]] = subst(x[p[0]], p[1:], new)
            return y
        y = dict(x)
        y[p[0]] = subst(x[p[0]], p[1:], new)
        return y

    cands = []
    for p, sub in paths(v):
        try:
            hx = to_hashable(sub)
        except Exception:
            continue
        for alt in reread(hx):
            try:
                c = subst(v, p, alt)
            except Exception:
                continue
            cands.append(c)
            if len(cands) >= limit:
                return cands
    return cands
