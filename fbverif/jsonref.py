"""Independent reference for JSON semantics (never imports the library).

canon(v)      canonical hashable form of a JSON value *after* a JSON round trip;
              canon(a) == canon(b)  <=>  a and b are equal as JSON values:
              tuples == lists, dict key order irrelevant, list order relevant,
              1 == 1.0 (exact numeric equality), bool never equals a number.
roundtrip(v)  json.loads(json.dumps(v)) (TypeError for non-JSON values)
type_exact_equal(a, b)   same concrete types and values everywhere
                          (-0.0 vs 0.0 and 1 vs 1.0 distinguished)
"""
import json
import math


def roundtrip(v):
    try:
        return json.loads(json.dumps(v))
    except (TypeError, ValueError) as e:
        raise TypeError(str(e))


def canon(v):
    if v is None:
        return ('z',)
    if v is True or v is False:
        return ('b', bool(v))
    c = v.__class__
    if c is bool:
        return ('b', v)
    if c is int or c is float:
        return ('n', v)
    if c is str:
        return ('s', v)
    if c is list or c is tuple:
        return ('l',) + tuple(canon(x) for x in v)
    if c is dict:
        return ('d', frozenset((k, canon(x)) for k, x in v.items()))
    raise TypeError('not a sanitized JSON value: %r' % (c,))


def json_equal(a, b):
    return canon(a) == canon(b)


def canon_rt(v):
    """canonical form of an arbitrary JSON-representable value (round trip first)."""
    return canon(roundtrip(v))


def type_exact_equal(a, b):
    if a.__class__ is not b.__class__:
        return False
    if a.__class__ is float:
        if math.isnan(a) or math.isnan(b):
            return math.isnan(a) and math.isnan(b)
        return a == b and math.copysign(1.0, a) == math.copysign(1.0, b)
    if a.__class__ in (list, tuple):
        return len(a) == len(b) and all(type_exact_equal(x, y) for x, y in zip(a, b))
    if a.__class__ is dict:
        if len(a) != len(b):
            return False
        for k, x in a.items():
            if k not in b:
                return False
            # key types must match as well
            kb = [kk for kk in b if kk == k and kk.__class__ is k.__class__]
            if not kb:
                return False
            if not type_exact_equal(x, b[k]):
                return False
        return True
    return a == b


def shares_mutable(a, b):
    """True if some list/dict object is reachable from both a and b."""
    ids = set()

    def walk(v, collect):
        if isinstance(v, (list, dict)):
            if collect:
                ids.add(id(v))
            elif id(v) in ids:
                return True
            it = v.values() if isinstance(v, dict) else v
            for x in it:
                if walk(x, collect):
                    return True
        elif isinstance(v, tuple):
            for x in v:
                if walk(x, collect):
                    return True
        return False
    walk(a, True)
    return walk(b, False)


def jsonable(v):
    """make a canon form / arbitrary structure printable in evidence/replays"""
    if isinstance(v, (list, tuple)):
        return [jsonable(x) for x in v]
    if isinstance(v, (set, frozenset)):
        return sorted((jsonable(x) for x in v), key=repr)
    if isinstance(v, dict):
        return {str(k): jsonable(x) for k, x in v.items()}
    if isinstance(v, bytes):
        try:
            return v.decode('utf-8')
        except UnicodeDecodeError:
            return repr(v)
    if isinstance(v, float) and (math.isinf(v) or math.isnan(v)):
        return repr(v)
    if isinstance(v, (str, int, float, bool)) or v is None:
        return v
    return repr(v)
