"""History steps: random external mutations applied to real tree and model."""
from .gen import rand_path
from . import env


def existing(world, kind=None):
    out = []
    for p, e in world.model.disk.items():
        if p.startswith(world.sb + '/') and p != world.cache:
            if kind is None or e[0] == kind:
                out.append(env.rel(world.sb, p))
    return sorted(out)


def random_mutation(rng, world, cfg, weights=None, counter=None):
    """apply one random external mutation; returns its name or None if skipped"""
    w = weights or {'write': 4, 'modify': 3, 'delete': 3, 'mkdir': 1.5, 'touch': 1,
                    'recreate': 0.7, 'swap': 0.8, 'tamper_output': 2, 'delete_output': 1.5,
                    'plant_in_created': 1.2, 'delcache': 0.3}
    kinds = list(w)
    k = rng.choices(kinds, [w[x] for x in kinds])[0]
    rec = world.model.current_record()
    n = counter[0] if counter else rng.randint(0, 10 ** 6)
    if counter:
        counter[0] += 1
    data = ('ext%d' % n).encode()
    if rng.random() < 0.06:
        data = b''      # zero-length files
    ok = False
    if k == 'write':
        ok = world.ext_write(rand_path(rng, cfg), data)
    elif k == 'modify':
        fs = existing(world, 'f')
        if fs:
            ok = world.ext_write(rng.choice(fs), data)
    elif k == 'delete':
        xs = existing(world)
        if xs:
            ok = world.ext_delete(rng.choice(xs))
    elif k == 'mkdir':
        ok = world.ext_mkdir(rand_path(rng, cfg))
    elif k == 'touch':
        fs = existing(world, 'f')
        if fs:
            r = rng.choice(fs)
            if rng.random() < 0.3:
                # unusual times: the epoch, before the epoch, far in the future, back in time, +-1 ns
                import os as _os
                try:
                    cur = _os.stat(world.ap(r)).st_mtime_ns
                    tgt = rng.choice([0, 1, -10 ** 9, 4102444800 * 10 ** 9, cur - 10 ** 12, cur + 1, cur - 1])
                    ok = world.ext_touch(r, tgt - cur) if tgt != cur else False
                except OSError:
                    ok = False
            else:
                ok = world.ext_touch(r)
    elif k == 'recreate':
        fs = existing(world, 'f')
        if fs:
            ok = world.ext_recreate(rng.choice(fs))
    elif k == 'swap':
        xs = existing(world)
        if xs:
            r = rng.choice(xs)
            if world.model.disk[world.ap(r)][0] == 'f':
                ok = world.ext_delete(r) and world.ext_mkdir(r)
            else:
                ok = world.ext_delete(r) and world.ext_write(r, data)
    elif k == 'tamper_output':
        if rec and rec.outputs:
            r = env.rel(world.sb, rng.choice(sorted(rec.outputs)))
            if world.model.disk.get(world.ap(r), ('x',))[0] == 'f':
                ok = world.ext_write(r, data)
    elif k == 'delete_output':
        if rec and rec.outputs:
            r = env.rel(world.sb, rng.choice(sorted(rec.outputs)))
            ok = world.ext_delete(r)
    elif k == 'plant_in_created':
        if rec and rec.created_dirs:
            d = env.rel(world.sb, rng.choice(sorted(rec.created_dirs)))
            if world.model.disk.get(world.ap(d), ('x',))[0] == 'd':
                ok = world.ext_write(d + '/' + rng.choice(['a', 'b', 'c', 'zz']), data)
    elif k == 'delcache':
        ok = world.ext_delete_cache()
    return k if ok else None
