"""Environment: import the library from the *current working tree* of the
repository (FB_REPO or /repo), scratch directories, explicit mtime clock,
tree snapshots.  Nothing here changes /repo."""
import os
import sys
import shutil
import itertools
import logging
import tempfile

sys.dont_write_bytecode = True
REPO = os.path.abspath(os.environ.get('FB_REPO', '/repo'))
VERIF = os.path.dirname(os.path.dirname(os.path.abspath(__file__)))
GUARD = 'FILE_BUILDER_VERIF'

# third-party deps (icontract) are installed offline into /verif/.deps
DEPS = os.path.join(VERIF, '.deps')
if os.path.isdir(DEPS) and DEPS not in sys.path:
    sys.path.append(DEPS)

if sys.path[0] != REPO:
    sys.path.insert(0, REPO)
logging.disable(logging.CRITICAL)

import file_builder  # noqa: E402
from file_builder import FileBuilder, FileComparison  # noqa: E402,F401

_fb_file = os.path.abspath(file_builder.__file__)
if not _fb_file.startswith(REPO + os.sep):
    raise RuntimeError('file_builder imported from %s, not from %s' % (_fb_file, REPO))

LIB_DIR = os.path.dirname(_fb_file)


def lib_modules():
    """The library's own modules (not tests/samples)."""
    out = {}
    for name, mod in list(sys.modules.items()):
        f = getattr(mod, '__file__', None)
        if f and os.path.dirname(os.path.abspath(f)) == LIB_DIR:
            out[name] = mod
    return out


# ------------------------------------------------------------------ scratch
def scratch_base():
    for cand in ('/dev/shm', os.environ.get('TMPDIR') or '', '/tmp'):
        if cand and os.path.isdir(cand) and os.access(cand, os.W_OK):
            return cand
    return tempfile.gettempdir()


_counter = itertools.count()


class Scratch:
    """A private scratch area: <base>/sb is the sandbox, <base>/tmp the
    tempfile directory (same file system: the library renames into it)."""

    def __init__(self, tag='c'):
        self.base = os.path.join(
            scratch_base(), 'fbverif_%d_%s_%d' % (os.getpid(), tag, next(_counter)))
        if os.path.exists(self.base):
            shutil.rmtree(self.base)
        os.makedirs(self.base)
        self.sb = os.path.join(self.base, 'sb')
        self.tmp = os.path.join(self.base, 'tmp')
        os.mkdir(self.sb)
        os.mkdir(self.tmp)
        self._old_tmp = tempfile.tempdir
        tempfile.tempdir = self.tmp

    def close(self):
        tempfile.tempdir = self._old_tmp
        shutil.rmtree(self.base, ignore_errors=True)

    def __enter__(self):
        return self

    def __exit__(self, *a):
        self.close()


# ------------------------------------------------------------------ clock
class Clock:
    """Explicit, strictly increasing mtime_ns values (Linux timestamps are
    coarse; equal-size rewrites inside one tick would be invisible to
    METADATA comparison and produce false alarms)."""

    def __init__(self, start=1_600_000_000_000_000_000):
        self.t = start

    def next(self):
        self.t += 1_000_000_007
        return self.t


CLOCK = Clock()


def fixed_stamp(path):
    import hashlib
    h = int(hashlib.sha1(path.encode('utf-8', 'surrogatepass')).hexdigest()[:8], 16)
    return 1_400_000_000_000_000_000 + h * 1000


def write_file(path, data, stamp=None):
    """User/external side write with an explicit fresh mtime."""
    if isinstance(data, str):
        data = data.encode('utf-8')
    with open(path, 'wb') as f:
        f.write(data)
    if stamp is None:
        stamp = CLOCK.next()
    os.utime(path, ns=(stamp, stamp))
    return stamp


# ------------------------------------------------------------------ snapshot
def snapshot(root, with_meta=True):
    """path -> ('d',) | ('f', bytes, mtime_ns, inode) | ('l', target) for everything below root
    (root itself is '').  Absolute paths as keys."""
    out = {root: ('d',)}
    stack = [root]
    while stack:
        d = stack.pop()
        try:
            names = os.listdir(d)
        except OSError:
            continue
        for n in names:
            p = os.path.join(d, n)
            try:
                st = os.lstat(p)
            except OSError:
                continue
            import stat as _s
            if _s.S_ISDIR(st.st_mode):
                out[p] = ('d',)
                stack.append(p)
            elif _s.S_ISLNK(st.st_mode):
                out[p] = ('l', os.readlink(p))
            else:
                try:
                    with open(p, 'rb') as f:
                        data = f.read()
                except OSError:
                    data = None
                out[p] = ('f', data, st.st_mtime_ns, st.st_ino) if with_meta else ('f', data)
    return out


def rel(sb, p):
    if p == sb:
        return ''
    if p.startswith(sb + '/'):
        return p[len(sb) + 1:]
    return p
