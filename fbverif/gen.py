"""Random program / history generators (E1).  All randomness comes from the
random.Random handed in, so VERIF_SEED reproduces a run; every generated case is
also stored as plain data (program JSON + concrete step list) for replay."""
from .prog import targets_ok

AWKWARD = ['a b', 'é', 'e\u0301', '.h', 'x' * 255, 'y' * 256, 'c.d', '-', '猫', 'ab', 'A']


class GenCfg:
    def __init__(self, **kw):
        self.names = ['a', 'b', 'c']
        self.p_awkward = 0.04
        self.maxdepth = 3
        self.nfuncs = (2, 6)
        self.nroots = (1, 3)
        self.body_len = (1, 4)
        self.p_query = 0.42
        self.p_bf = 0.30
        self.p_sb = 0.22
        self.p_ifq = 0.06
        self.p_par = 0.0
        self.p_catch = 0.75
        self.p_raise = 0.12
        self.p_nocreate = 0.06
        self.p_nonjson = 0.03
        self.p_hash = 0.25
        self.p_cmp = 0.3
        self.p_args = 0.35
        self.p_root_raise = 0.0
        self.query_kinds = ['is_file', 'is_dir', 'exists', 'list_dir', 'walk', 'walk_bu',
                            'get_size', 'read_text', 'read_binary', 'declare_read']
        self.max_call_depth = 3
        self.spellings = False
        self.p_qspell = 0.06
        self.p_empty = 0.05     # zero-length outputs
        self.p_raise_builtin = 0.3   # user exceptions of builtin classes (FileNotFoundError, KeyError, ...)
        self.p_qprop = 0.05          # queries whose documented OSError leaves the function uncaught
        self.p_inner = 0.05     # an independent build inside a root function
        self.p_rename = 0.06    # function names from the library's own vocabulary
        self.__dict__.update(kw)


ARGS_POOL = [[0], [1], [1.0], ['x'], [[1, 2]], [None], [True], [{'k': 1}], [0, 'y'],
             [''], [[]], [{}], [False], [0.0], [{'k': None}]]
KWARGS_POOL = [{}, {}, {}, {'k': 1}, {'k': 2}, {'j': [1]}, {'k': None}, {'k': 0}, {'j': None}]


TOOLONG = 'y' * 256
RAISE_CLASSES = ['FileNotFoundError', 'IsADirectoryError', 'NotADirectoryError', 'PermissionError',
                 'FileExistsError', 'OSError', 'KeyError', 'ValueError', 'RuntimeError', 'TypeError', 'LookupError',
                 'StopIteration', 'EOFError', 'UnicodeError', 'NotImplementedError']
QSPELL = ['bytes', 'pathlike', 'dslash', 'dot', 'dotdot', 'trail', 'rel']


def rand_name(rng, cfg, toolong=False):
    if rng.random() < cfg.p_awkward:
        n = rng.choice(AWKWARD)
        if n == TOOLONG and not toolong:
            return rng.choice(cfg.names)
        return n
    return rng.choice(cfg.names)


def rand_path(rng, cfg, maxd=None, allow_root=False, target=False):
    """A 256-byte component (which no file system entry can have) is only used
    for *ancestors of build targets*: what the OS answers for such names in
    queries depends on the environment (ENOENT vs ENAMETOOLONG)."""
    maxd = maxd or cfg.maxdepth
    if allow_root and rng.random() < 0.12:
        return ''
    n = rng.randint(1, maxd)
    return '/'.join(rand_name(rng, cfg, toolong=target and i < n - 1) for i in range(n))


def gen_query(rng, cfg):
    kind = rng.choice(cfg.query_kinds)
    if kind == 'get_size' and rng.random() < 0.6:
        kind = rng.choice(cfg.query_kinds)
    mode = 'H' if rng.random() < cfg.p_hash else 'M'
    q = ['q', kind, rand_path(rng, cfg, allow_root=True), mode]
    if rng.random() < cfg.p_qspell:
        # the same path spelled differently (bytes, PathLike, //, /./, x/../, trailing /, relative)
        q.append(rng.choice(QSPELL))
    if rng.random() < cfg.p_qprop:
        if len(q) < 5:
            q.append(None)
        q.append('prop')
    return q


def gen_call_opts(rng, cfg):
    o = {'catch': rng.random() < cfg.p_catch}
    if rng.random() < cfg.p_args:
        o['args'] = rng.choice(ARGS_POOL)
        o['kwargs'] = rng.choice(KWARGS_POOL)
    return o


def gen_stmts(rng, cfg, idx, funcs, depth, nstmts=None):
    """statements for the body of function number idx (may call functions > idx)"""
    body = []
    n = nstmts if nstmts is not None else rng.randint(*cfg.body_len)
    later_bf = [f for f in funcs if funcs[f]['idx'] > idx and funcs[f]['kind'] == 'bf']
    later_sb = [f for f in funcs if funcs[f]['idx'] > idx and funcs[f]['kind'] == 'sb']
    for _ in range(n):
        r = rng.random()
        if r < cfg.p_query:
            body.append(gen_query(rng, cfg))
        elif r < cfg.p_query + cfg.p_bf and later_bf and depth < cfg.max_call_depth:
            o = gen_call_opts(rng, cfg)
            if rng.random() < cfg.p_cmp:
                o['cmp'] = 'H' if rng.random() < 0.5 else 'M'
            if cfg.spellings and rng.random() < 0.3:
                o['sp'] = rng.choice(['bytes', 'pathlike', 'dslash', 'dot', 'dotdot', 'trail'])
            body.append(['bf', rand_path(rng, cfg, target=True), rng.choice(later_bf), o])
        elif r < cfg.p_query + cfg.p_bf + cfg.p_sb and later_sb and depth < cfg.max_call_depth:
            body.append(['sb', rng.choice(later_sb), gen_call_opts(rng, cfg)])
        elif r < cfg.p_query + cfg.p_bf + cfg.p_sb + cfg.p_ifq and depth < 4:
            body.append(['ifq', rng.choice(['is_file', 'is_dir', 'exists']),
                         rand_path(rng, cfg),
                         gen_stmts(rng, cfg, idx, funcs, depth + 1, 1),
                         gen_stmts(rng, cfg, idx, funcs, depth + 1, rng.randint(0, 1))])
        elif cfg.p_par and rng.random() < cfg.p_par:
            body.append(['par', [gen_stmts(rng, cfg, idx, funcs, depth + 1, 1)
                                 for _ in range(rng.randint(2, 3))]])
        else:
            body.append(gen_query(rng, cfg))
    return body


def gen_program(rng, cfg):
    for _attempt in range(200):
        nf = rng.randint(*cfg.nfuncs)
        funcs = {}
        for i in range(nf):
            kind = 'bf' if rng.random() < 0.55 else 'sb'
            name = ('F%d' if kind == 'bf' else 'S%d') % i
            funcs[name] = {'kind': kind, 'idx': i, 'body': []}
        # bodies are generated from the last function backwards so callees exist
        for name in sorted(funcs, key=lambda f: -funcs[f]['idx']):
            fd = funcs[name]
            depth = 1
            body = gen_stmts(rng, cfg, fd['idx'], funcs, depth)
            if fd['kind'] == 'bf':
                if rng.random() >= cfg.p_nocreate:
                    body.insert(rng.randint(0, len(body)),
                                ['write', '', {'empty': True}] if rng.random() < cfg.p_empty else ['write', ''])
            if rng.random() < cfg.p_raise:
                st = ['raise', name]
                if rng.random() < cfg.p_raise_builtin:
                    st.append(rng.choice(RAISE_CLASSES))
                body.insert(rng.randint(0, len(body)), st)
            elif rng.random() < cfg.p_nonjson:
                body.append(['ret', 'nonjson'])
            fd['body'] = body
        roots = []
        for _ in range(rng.randint(*cfg.nroots)):
            rb = gen_stmts(rng, cfg, -1, funcs, 0, rng.randint(1, 5))
            if cfg.p_root_raise and rng.random() < cfg.p_root_raise:
                rb.insert(rng.randint(0, len(rb)), ['raise', 'root'])
            roots.append(rb)
        for rb in roots:
            if rng.random() < cfg.p_inner:
                # an independent build (own cache file, own directory) made by user code in the middle
                rb.insert(rng.randint(0, len(rb)), ['x', 'inner', rng.choice(['ok', 'raise'])])
        program = {'funcs': funcs, 'roots': roots}
        if all(targets_ok(program, rb) for rb in roots):
            if rng.random() < cfg.p_rename:
                rename_funcs(program, rng)
            return program
    raise RuntimeError('could not generate a program respecting the target obligation')


# function names taken from the library's own vocabulary and other awkward strings: a function name is
# an opaque string, whatever it happens to coincide with
ODD_FUNC_NAMES = ['read', 'walk', 'list_dir', 'is_file', 'is_dir', 'exists', 'get_size', 'build_file',
                  'subbuild', 'build', 'clean', '', ' ', 'é', 'a/b', '0', 'None', 'F 1', 'cacheFileVersion',
                  'createdDirs', 'funcVersions', 'rootOperations', 'type', 'args', 'kwargs', 'raised']


def rename_funcs(program, rng):
    funcs = program['funcs']
    names = list(funcs)
    k = rng.randint(1, min(3, len(names)))
    new = rng.sample(ODD_FUNC_NAMES, k)
    ren = dict(zip(rng.sample(names, k), new))

    def fix(body):
        for st in body:
            if st[0] == 'bf':
                st[2] = ren.get(st[2], st[2])
            elif st[0] == 'sb':
                st[1] = ren.get(st[1], st[1])
            elif st[0] == 'ifq':
                fix(st[3])
                fix(st[4])
            elif st[0] == 'par':
                for b in st[1]:
                    fix(b)
    for fd in funcs.values():
        fix(fd['body'])
    for rb in program['roots']:
        fix(rb)
    program['funcs'] = {ren.get(n, n): fd for n, fd in funcs.items()}


def program_shape(program):
    """coarse shape used to count distinct programs"""
    def shape(body):
        out = []
        for s in body:
            if s[0] == 'q':
                out.append('q:' + s[1])
            elif s[0] == 'bf':
                out.append('bf:%d' % s[1].count('/'))
            elif s[0] == 'sb':
                out.append('sb')
            elif s[0] == 'ifq':
                out.append(['if', shape(s[3]), shape(s[4])])
            elif s[0] == 'par':
                out.append(['par'] + [shape(b) for b in s[1]])
            else:
                out.append(s[0])
        return out
    return repr(([shape(f['body']) for f in program['funcs'].values()],
                 [shape(r) for r in program['roots']]))


VERSION_POOL = [None, 0, 1, 1.0, True, 'v', [1], {'a': 1, 'b': 2}, {'b': 2, 'a': 1}, 2]


def gen_versions(rng, program, p=0.3):
    out = {}
    for f in program['funcs']:
        if rng.random() < p:
            out[f] = rng.choice(VERSION_POOL)
    return out
