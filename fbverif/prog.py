"""Programs as data + one interpreter that drives either the real FileBuilder or
the reference model (same API).  See DESIGN.md 1.1."""
import copy
import hashlib
import json
import os
import threading

from . import env
from .env import FileComparison
from .jsonref import canon, roundtrip, type_exact_equal, shares_mutable

DOC_ERRS = ('FileNotFoundError', 'IsADirectoryError', 'NotADirectoryError')


# classes generated user code may raise besides UserBoom: the library's own vocabulary of failures
# (a user exception is an opaque object, whatever its class happens to coincide with)
USER_EXC = {n: getattr(__import__('builtins'), n) for n in (
    'FileNotFoundError', 'IsADirectoryError', 'NotADirectoryError', 'PermissionError', 'FileExistsError',
    'OSError', 'KeyError', 'ValueError', 'RuntimeError', 'TypeError', 'LookupError',
    'StopIteration', 'EOFError', 'UnicodeError', 'RecursionError', 'NotImplementedError')}


class UserBoom(Exception):
    """exception raised by generated user code"""

    def __init__(self, tag):
        super().__init__(tag)
        self.tag = tag


class Crash(UserBoom):
    """injected at an enumerated crash point; generated except blocks re-raise it"""


class NotJson:
    def __repr__(self):
        return '<NotJson>'


def canon_str(v):
    """string that is equal for JSON-equal values (used to seed accumulators: a
    function must give equivalent results for JSON-equal arguments)"""
    if v is None:
        return 'null'
    if v is True:
        return 'true'
    if v is False:
        return 'false'
    if isinstance(v, (int, float)):
        if isinstance(v, float):
            if v != v:
                return 'nan'
            if v in (float('inf'), float('-inf')):
                return repr(v)
            if v.is_integer():
                return str(int(v))
            return repr(v)
        return str(v)
    if isinstance(v, str):
        return json.dumps(v)
    if isinstance(v, (list, tuple)):
        return '[' + ','.join(canon_str(x) for x in v) + ']'
    if isinstance(v, dict):
        return '{' + ','.join(json.dumps(str(k)) + ':' + canon_str(x)
                              for k, x in sorted(v.items(), key=lambda kv: str(kv[0]))) + '}'
    raise TypeError(type(v))


def H(acc, *xs):
    s = acc + '|' + json.dumps(xs, sort_keys=True, default=repr)
    return hashlib.sha1(s.encode('utf-8', 'surrogatepass')).hexdigest()[:12]


def errname(e):
    n = e.__class__.__name__
    if isinstance(e, OSError) and n not in DOC_ERRS:
        return 'OSError'
    return n


class Ctx:
    """per-run context shared by the functions of one build"""

    def __init__(self, program, sb, real, mb_getter=None, versions=None, monitor=None):
        self.program = program
        self.sb = sb
        self.real = real
        self.mb_getter = mb_getter      # model: callable returning the current MBuild
        self.versions = versions or {}
        self.monitor = monitor          # FS-event monitor (real only) or None
        self.lock = threading.Lock()
        self.log = []                   # invocation log: (t, key, fname)
        self.qlog = []                  # (where, kind, rel, answer)
        self.booms = []                 # UserBoom objects raised
        self.issues = []                # client-side monitor findings (real runs)
        self.received = []              # (fname, received args, kwargs)
        self.peeks = []                 # C10 peeks
        self.written = {}               # path -> last content written by user code
        self.hooks = {}                 # optional callbacks: 'point'
        self.mask = set()               # rel paths never observed (cache-only directories)
        self.rets = []                  # (t, key, value) of every successful complex call
        self.tls = threading.local()
        self.marks = []                 # ('fret'|'done', where, clock)
        self.stash = {}                 # name -> builder instance kept beyond its function (C17)
        self.stragglers = []
        self.outcomes = {}              # key -> None (ok) | exception object
        self.fault_call = None
        self.npoints = 0

    def ap(self, r):
        return os.path.join(self.sb, r) if r else self.sb

    def clock(self):
        c = self.hooks.get('clock')
        if c is not None:
            return c()
        with self.lock:
            self._clk = getattr(self, '_clk', 0) + 1
            return self._clk

    def mark(self, what, where):
        t = self.clock()
        with self.lock:
            self.marks.append((what, where, t))

    def push_call(self, key):
        st = getattr(self.tls, 'stack', None)
        if st is None:
            st = self.tls.stack = []
        st.append(key)

    def pop_call(self, key, exc):
        self.tls.stack.pop()
        with self.lock:
            self.outcomes.setdefault(key, []).append(exc)

    def current_call(self):
        st = getattr(self.tls, 'stack', None)
        return st[-1] if st else None

    def rel(self, p):
        return env.rel(self.sb, p)

    # user-side effects ----------------------------------------------------
    def user_write(self, path, data, fixed_stamp=False):
        """fixed_stamp: a timestamp-preserving generator (SOURCE_DATE_EPOCH style): every
        version of this file gets the same mtime, so only HASH can see a content change"""
        if self.real:
            mon = self.monitor
            if mon is not None:
                mon.enter_user()
            try:
                env.write_file(path, data, env.fixed_stamp(path) if fixed_stamp else None)
            finally:
                if mon is not None:
                    mon.exit_user()
        else:
            self.mb_getter().user_write(path, data, fixed_stamp)
        with self.lock:
            self.written[path] = data

    def issue(self, kind, **kw):
        with self.lock:
            self.issues.append(dict(issue=kind, **kw))

    def point(self, label):
        """a program point at which user code could raise (crash-point enumeration)"""
        with self.lock:
            self.npoints += 1
            n = self.npoints
        cb = self.hooks.get('point')
        if cb is not None:
            cb(self, n, label)


def version_class(ctx, fname):
    v = ctx.versions.get(fname)
    return canon_str(roundtrip(v))


def spell(ctx, r, sp):
    """alternative spellings of the same path (C07)"""
    p = ctx.ap(r)
    if not sp:
        return p
    if sp == 'bytes':
        return os.fsencode(p)
    if sp == 'pathlike':
        import pathlib
        return pathlib.PurePosixPath(p)
    if sp == 'dslash':
        # not the leading slash: POSIX (and os.path.normpath) keep exactly two leading slashes distinct
        return p[:1] + p[1:].replace('/', '//')
    if sp == 'dot':
        d, b = os.path.split(p)
        return d + '/./' + b
    if sp == 'dotdot':
        d, b = os.path.split(p)
        return d + '/zz/../' + b
    if sp == 'trail':
        return p + '/'
    if sp == 'rel':
        return os.path.relpath(p, os.getcwd())
    return p


def do_query(ctx, b, kind, r, mode, sp=None):
    """perform one query and return the normalised answer; sp = alternative spelling of
    the path handed to the real library (the model always gets the normalised path)"""
    p0 = ctx.ap(r)
    p = spell(ctx, r, sp) if (sp and ctx.real) else p0
    fc = FileComparison.HASH if mode == 'H' else FileComparison.METADATA
    try:
        if kind in ('read_text', 'read_binary'):
            f = getattr(b, kind)(p, fc)
            try:
                data = f.read()
            finally:
                f.close()
            if isinstance(data, str):
                data = data.encode('utf-8')
            v = data.decode('latin-1')
        elif kind == 'declare_read':
            b.declare_read(p, fc)
            if ctx.real:
                with open(p0, 'rb') as f:
                    v = f.read().decode('latin-1')
            else:
                mb = ctx.mb_getter()
                v = mb.v[p0][1].decode('latin-1')
        elif kind in ('walk', 'walk_bu'):
            top = kind == 'walk'
            res = b.walk(p, top)
            if ctx.real:
                check_walk_shape(ctx, res, top, p0)
            v = sorted([ctx.rel(d), sorted(sd), sorted(sf)] for d, sd, sf in res)
            if ctx.mask:
                v = [[d, [x for x in sd if (d + '/' + x if d else x) not in ctx.mask], sf]
                     for d, sd, sf in v
                     if d not in ctx.mask and not any(d.startswith(m + '/') for m in ctx.mask)]
        elif kind == 'list_dir':
            res = b.list_dir(p)
            if ctx.real and (not isinstance(res, list) or
                             any(x.__class__ is not str for x in res)):
                ctx.issue('list_dir_shape', path=r, got=repr(res)[:80])
            v = sorted(res)
            if ctx.mask:
                v = [x for x in v if (r + '/' + x if r else x) not in ctx.mask]
        elif kind == 'get_size':
            isd = b.is_dir(p)
            res = b.get_size(p)
            if isd:
                v = 'DIRSIZE' if (res == 'DIRSIZE' or isinstance(res, int)) else repr(res)
            else:
                v = res
        else:
            v = getattr(b, kind)(p)
            if v.__class__ is not bool:
                ctx.issue('bool_shape', kind=kind, path=r, got=repr(v)[:40])
        return ['ok', v]
    except OSError as e:
        ctx.tls.qexc = e
        if kind in ('read_text', 'read_binary', 'declare_read') and any(
                len(os.fsencode(c)) > 255 for c in r.split('/')):
            # the OS reports ENAMETOOLONG for such names; which OSError subclass
            # surfaces is not specified
            return ['err', 'OSError(any)']
        return ['err', errname(e)]


def check_walk_shape(ctx, res, top_down, p):
    try:
        seen = {}
        for i, (d, sd, sf) in enumerate(res):
            seen[d] = i
        for d, sd, sf in res:
            for n in sd:
                c = os.path.join(d, n)
                if c not in seen:
                    continue
                if top_down and not seen[d] < seen[c]:
                    ctx.issue('walk_order', path=ctx.rel(p))
                if not top_down and not seen[d] > seen[c]:
                    ctx.issue('walk_order', path=ctx.rel(p))
    except Exception as e:  # malformed result
        ctx.issue('walk_shape', path=ctx.rel(p), err=repr(e)[:80])


def truthy(ans):
    if ans[0] != 'ok':
        return False
    return bool(ans[1])


class Frame:
    def __init__(self, b, fname, target, where):
        self.b = b
        self.fname = fname
        self.target = target
        self.where = where
        self.ret = None
        self.has_ret = False
        self.vals = {}      # named values for C11 mutation statements


def run_body(ctx, fr, body, acc):
    for s in body:
        op = s[0]
        if op == 'q':
            kind, r = s[1], s[2]
            mode = s[3] if len(s) > 3 else 'M'
            ctx.point('before:' + kind)
            ans = do_query(ctx, fr.b, kind, r, mode, s[4] if len(s) > 4 else None)
            if len(s) > 5 and s[5] == 'prop' and ans[0] == 'err' and ans[1] in DOC_ERRS:
                # user code that does not catch the error of its own query: the very object
                # the builder raised leaves the function
                with ctx.lock:
                    ctx.qlog.append((fr.where, kind, r, mode, ans))
                raise ctx.tls.qexc
            with ctx.lock:
                ctx.qlog.append((fr.where, kind, r, mode, ans))
            acc = H(acc, 'q', kind, r, mode, ans)
        elif op == 'ifq':
            kind, r, then, els = s[1], s[2], s[3], s[4]
            ans = do_query(ctx, fr.b, kind, r, 'M')
            with ctx.lock:
                ctx.qlog.append((fr.where, kind, r, 'M', ans))
            acc = H(acc, 'ifq', kind, r, ans)
            acc = run_body(ctx, fr, then if truthy(ans) else els, acc)
        elif op == 'bf':
            ctx.point('before:bf')
            acc = H(acc, 'bf', call_bf(ctx, fr, s))
            ctx.point('after:bf')
        elif op == 'sb':
            ctx.point('before:sb')
            acc = H(acc, 'sb', call_sb(ctx, fr, s))
            ctx.point('after:sb')
        elif op == 'raise':
            cls = USER_EXC.get(s[2]) if len(s) > 2 else None
            e = UserBoom(s[1] if len(s) > 1 else 'boom') if cls is None else cls(s[1])
            with ctx.lock:
                ctx.booms.append(e)
            raise e
        elif op == 'write':
            salt = s[1] if len(s) > 1 else ''
            wopts = s[2] if len(s) > 2 else {}
            try:
                ctx.user_write(fr.target, b'' if wopts.get('empty') else (acc + salt).encode('utf-8'),
                               wopts.get('stamp') == 'fixed')
            except OSError:
                if not wopts.get('swallow'):
                    raise
                acc = H(acc, 'write-failed')
        elif op == 'ret':
            fr.ret = s[1]
            fr.has_ret = True
        elif op == 'par':
            acc = H(acc, 'par', run_par(ctx, fr, s[1], acc, s[2] if len(s) > 2 else None))
        elif op == 'x':
            # extension statements registered by specific checks
            acc = EXT[s[1]](ctx, fr, s, acc)
        else:
            raise ValueError('unknown statement %r' % (s,))
    return acc


EXT = {}


def st_peek(ctx, fr, s, acc):
    """['x', 'peek', rel]: record (bytes, mtime_ns, inode) of a real file at this point
    (monitor only; the program does not use it)"""
    if ctx.real:
        p = ctx.ap(s[2])
        try:
            st = os.stat(p)
            with open(p, 'rb') as f:
                data = f.read()
            val = (data, st.st_mtime_ns, st.st_ino)
        except OSError as e:
            val = ('absent', e.__class__.__name__)
        with ctx.lock:
            ctx.peek_log = getattr(ctx, 'peek_log', [])
            ctx.peek_log.append((s[2], s[3] if len(s) > 3 else None, val))
    return acc


EXT['peek'] = st_peek


def MUTATE(ctx, value, how, edge):
    from .mutstmts import mutate
    return mutate(ctx, value, how, edge)


def run_par(ctx, fr, bodies, acc, opts=None):
    """opts {'sym': True}: the threads are interchangeable (same seed, outcomes
    compared as a multiset) - used when two threads race for the same key (C08)"""
    results = [None] * len(bodies)
    errors = [None] * len(bodies)
    sym = bool(opts and opts.get('sym'))

    def worker(i):
        try:
            results[i] = run_body(ctx, fr, bodies[i], H(acc, 'thr', 'sym' if sym else i))
        except BaseException as e:  # noqa
            errors[i] = e
    if ctx.real and ctx.hooks.get('threads', True):
        spawn = ctx.hooks.get('spawn')
        if spawn is not None:
            spawn(worker, len(bodies))
        else:
            ts = [threading.Thread(target=worker, args=(i,)) for i in range(len(bodies))]
            for t in ts:
                t.start()
            for t in ts:
                t.join()
    else:
        for i in range(len(bodies)):
            worker(i)
    out = []
    first = None
    for i in range(len(bodies)):
        if errors[i] is not None:
            out.append(['exc', errname(errors[i])])
            if first is None:
                first = errors[i]
        else:
            out.append(['ok', results[i]])
    if first is not None:
        raise first
    if sym:
        out.sort(key=lambda x: json.dumps(x, sort_keys=True, default=repr))
    return out


def final_ret(fr, acc, default):
    if not fr.has_ret:
        return default
    shape = fr.ret
    if shape == 'nonjson':
        return NotJson()
    if shape == 'tuple':
        # JSON-representable but not sanitized: must come back normalised
        return {'acc': acc, 'val': (1, (2, 3.0), {4: 'x', None: [True]})}
    if isinstance(shape, list) and shape and shape[0] == 'val':
        return {'acc': acc, 'val': copy.deepcopy(shape[1])}      # (never the program's own literal)
    if isinstance(shape, list) and shape and shape[0] == 'raw':
        return copy.deepcopy(shape[1])
    return default


def check_received(ctx, fname, sent_args, sent_kwargs, args, kwargs):
    if not ctx.real:
        return
    try:
        ea, ek = roundtrip(list(sent_args)), roundtrip(dict(sent_kwargs))
    except TypeError:
        return
    if not type_exact_equal(list(args), ea) or not type_exact_equal(dict(kwargs), ek):
        ctx.issue('received_args', fname=fname, sent=repr((sent_args, sent_kwargs))[:200],
                  got=repr((args, kwargs))[:200])
    if shares_mutable((sent_args, sent_kwargs), (list(args), kwargs)):
        ctx.issue('received_args_alias', fname=fname)


class _CallableInstance:
    def __init__(self, f):
        self._f = f

    def __call__(self, *a, **k):
        return self._f(*a, **k)


class _Holder:
    def __init__(self, f):
        self._f = f

    def method(self, *a, **k):
        return self._f(*a, **k)


def callable_shape(ctx, fn):
    """the user's function in one of the shapes a callable can have (plain function, functools.partial,
    callable instance, bound method, lambda): the library may only call it"""
    if not ctx.real:
        return fn
    with ctx.lock:
        ctx._shape_n = getattr(ctx, '_shape_n', 0) + 1
        n = ctx._shape_n
    k = n % 11
    if k == 3:
        import functools
        return functools.partial(fn)
    if k == 5:
        return _CallableInstance(fn)
    if k == 7:
        return _Holder(fn).method
    if k == 9:
        return lambda *a, **kw: fn(*a, **kw)
    return fn


def st_racyq(ctx, fr, s, acc):
    """['x', 'racyq', kind, rel]: a query whose answer legitimately depends on the interleaving (made by one
    thread about a path another thread is working on); it is made for its side effects on the library's
    bookkeeping only - the answer is neither logged nor part of the accumulator (root-level threads only)"""
    if ctx.real:
        try:
            v = getattr(fr.b, 'walk' if s[2] == 'walk' else s[2])(ctx.ap(s[3]))
            if s[2] in ('read_text', 'read_binary'):
                v.close()
        except (OSError, RuntimeError):
            pass
        with ctx.lock:
            ctx.racy_queries = getattr(ctx, 'racy_queries', 0) + 1
    return acc


EXT['racyq'] = st_racyq


def unrepresentable(p):
    if '\0' in p:
        return True
    try:
        os.fsencode(p)
        return False
    except UnicodeEncodeError:
        return True


def call_bf(ctx, fr, s):
    _, r, fname, o = s
    fdef = ctx.program['funcs'][fname]
    sent_args = copy.deepcopy(o.get('args', []))
    sent_kwargs = copy.deepcopy(o.get('kwargs', {}))
    target_abs = ctx.ap(r)
    fn_raised = []
    fn_retained = []

    def fn(b2, filename, *args, **kwargs):
        key = ('bf', filename)
        with ctx.lock:
            ctx.log.append(('bf', key, fname))
        if ctx.real:
            if filename != os.path.abspath(target_abs) or filename.__class__ is not str:
                ctx.issue('bf_path_received', want=target_abs, got=repr(filename))
            if os.path.lexists(filename):
                ctx.issue('bf_target_present_at_entry', path=ctx.rel(filename))
            if not os.path.isdir(os.path.dirname(filename)):
                ctx.issue('bf_parent_missing_at_entry', path=ctx.rel(filename))
        check_received(ctx, fname, sent_args, sent_kwargs, args, kwargs)
        fr2 = Frame(b2, fname, filename, fr.where + '/' + fname + '@' + ctx.rel(filename))
        fr2.args, fr2.kwargs = list(args), kwargs
        ctx.point('enter:' + fname)
        acc = H('bf', fname, ctx.rel(filename), canon_str(list(args)), canon_str(kwargs),
                version_class(ctx, fname))
        try:
            acc = run_body(ctx, fr2, fdef['body'], acc)
        except BaseException as u:
            fn_raised.append(u)
            raise
        finally:
            ctx.mark('fret', fr2.where)
        ctx.point('exit:' + fname)
        result = final_ret(fr2, acc, [acc])
        fn_retained.append(result)
        return result

    pth = spell(ctx, r, o.get('sp'))
    ckey = ('bf', os.path.abspath(target_abs))
    ctx.push_call(ckey)
    try:
        if o.get('cmp'):
            fc = FileComparison.HASH if o['cmp'] == 'H' else FileComparison.METADATA
            ret = fr.b.build_file_with_comparison(pth, fc, fname, callable_shape(ctx, fn), *sent_args, **sent_kwargs)
        else:
            ret = fr.b.build_file(pth, fname, callable_shape(ctx, fn), *sent_args, **sent_kwargs)
    except Exception as e:
        ctx.mark('done', ckey)
        ctx.pop_call(ckey, e)
        note_exception(ctx, e, fn_raised)
        if ctx.real:
            peek_after_bf(ctx, target_abs, False, e)
        if not o.get('catch') or isinstance(e, Crash):
            raise
        if unrepresentable(target_abs) and not isinstance(e, UserBoom):
            # a path the OS layer cannot even represent (NUL, lone surrogate): the call fails, with
            # ValueError / UnicodeEncodeError from whichever os function meets it first - unspecified
            return ['exc', 'ANY']
        if len(os.fsencode(os.path.basename(target_abs))) > 255 and not isinstance(e, UserBoom):
            # a target whose own name is too long for the file system: the call fails, but
            # with which class (the OS error or "did not create the file") is not specified
            return ['exc', 'ANY']
        return ['exc', errname(e)]
    ctx.mark('done', ckey)
    ctx.pop_call(ckey, None)
    if ctx.real:
        peek_after_bf(ctx, target_abs, True, None)
    with ctx.lock:
        ctx.rets.append(('bf', os.path.abspath(target_abs), copy.deepcopy(ret)))
    if o.get('mut_after'):
        MUTATE(ctx, (sent_args, sent_kwargs), o['mut_after'], 'caller-args')
    if o.get('mut_retained') and fn_retained:
        # the callee kept a reference to the object it returned and edits it after the call
        MUTATE(ctx, fn_retained[-1], o['mut_retained'], 'callee-retained-return')
    if o.get('keep'):
        fr.vals[o['keep']] = ret
    return ['ok', ret]


def peek_after_bf(ctx, target, ok, exc):
    """C10: state of the real file system right after build_file returns/raises
    (peeked by the monitor, not used by the program)."""
    if ok:
        if not os.path.isfile(target) or os.path.islink(target):
            ctx.issue('bf_returned_without_file', path=ctx.rel(target))
        else:
            want = ctx.written.get(os.path.abspath(target))
            if want is not None:
                with open(target, 'rb') as f:
                    got = f.read()
                if got != want and ctx.hooks.get('check_content', True):
                    # a reused output legitimately holds the previous (equal) content;
                    # compared against the model tree instead
                    pass
        d = os.path.dirname(target)
        if not os.path.isdir(d):
            ctx.issue('bf_returned_without_parent', path=ctx.rel(target))
    with ctx.lock:
        ctx.peeks.append((ctx.rel(target), ok, None if exc is None else errname(exc),
                          os.path.lexists(target)))


def note_exception(ctx, e, fn_raised=()):
    if isinstance(e, UserBoom) and ctx.real:
        with ctx.lock:
            known = any(e is o for o in ctx.booms)
        if not known:
            ctx.issue('exception_identity', tag=e.tag)
    if ctx.real and fn_raised and e is not fn_raised[-1] and not ctx.hooks.get('faults_active'):
        # whatever left the user's function (its own exception of any class, the error of a query
        # it did not catch, a rejection) is what the build_file/subbuild call must raise: the same object
        ctx.issue('exception_identity', raised=type(fn_raised[-1]).__name__, got=type(e).__name__)


def call_sb(ctx, fr, s):
    _, fname, o = s
    fdef = ctx.program['funcs'][fname]
    sent_args = copy.deepcopy(o.get('args', []))
    sent_kwargs = copy.deepcopy(o.get('kwargs', {}))
    fn_raised = []
    fn_retained = []

    def fn(b2, *args, **kwargs):
        key = ('sb', canon([fname, list(args), kwargs]))
        with ctx.lock:
            ctx.log.append(('sb', key, fname))
        check_received(ctx, fname, sent_args, sent_kwargs, args, kwargs)
        fr2 = Frame(b2, fname, None, fr.where + '/' + fname + canon_str(list(args)) + canon_str(kwargs))
        fr2.args, fr2.kwargs = list(args), kwargs
        ctx.point('enter:' + fname)
        acc = H('sb', fname, canon_str(list(args)), canon_str(kwargs), version_class(ctx, fname))
        try:
            acc = run_body(ctx, fr2, fdef['body'], acc)
        except BaseException as u:
            fn_raised.append(u)
            raise
        finally:
            ctx.mark('fret', fr2.where)
        ctx.point('exit:' + fname)
        result = final_ret(fr2, acc, {'v': acc})
        fn_retained.append(result)
        return result

    try:
        ckey = ('sb', canon([fname, roundtrip(list(sent_args)), roundtrip(sent_kwargs)]))
    except TypeError:
        ckey = ('sb', fname)
    ctx.push_call(ckey)
    try:
        ret = fr.b.subbuild(fname, callable_shape(ctx, fn), *sent_args, **sent_kwargs)
    except Exception as e:
        ctx.mark('done', ckey)
        ctx.pop_call(ckey, e)
        note_exception(ctx, e, fn_raised)
        if not o.get('catch') or isinstance(e, Crash):
            raise
        return ['exc', errname(e)]
    ctx.mark('done', ckey)
    ctx.pop_call(ckey, None)
    with ctx.lock:
        try:
            ctx.rets.append(('sb', canon([fname, roundtrip(list(sent_args)), roundtrip(sent_kwargs)]),
                             copy.deepcopy(ret)))
        except TypeError:
            pass
    if o.get('mut_after'):
        MUTATE(ctx, (sent_args, sent_kwargs), o['mut_after'], 'caller-args')
    if o.get('mut_retained') and fn_retained:
        # the callee kept a reference to the object it returned and edits it after the call
        MUTATE(ctx, fn_retained[-1], o['mut_retained'], 'callee-retained-return')
    if o.get('keep'):
        fr.vals[o['keep']] = ret
    return ['ok', ret]


def make_root(ctx, body):
    def root(b):
        fr = Frame(b, '<root>', None, '')
        ctx.point('enter:root')
        try:
            acc = run_body(ctx, fr, body, 'root')
        finally:
            ctx.mark('fret', '')
        ctx.point('exit:root')
        return {'root': acc}
    return root


# ------------------------------------------------------------------ static analysis
def reachable_targets(program, body, seen=None, out=None):
    if out is None:
        out = []
    if seen is None:
        seen = set()
    for s in body:
        if s[0] == 'bf':
            out.append(s[1])
            if s[2] not in seen:
                seen.add(s[2])
                reachable_targets(program, program['funcs'][s[2]]['body'], seen, out)
        elif s[0] == 'sb':
            if s[1] not in seen:
                seen.add(s[1])
                reachable_targets(program, program['funcs'][s[1]]['body'], seen, out)
        elif s[0] == 'par':
            for bb in s[1]:
                reachable_targets(program, bb, seen, out)
        elif s[0] == 'ifq':
            reachable_targets(program, s[3], seen, out)
            reachable_targets(program, s[4], seen, out)
    return out


def targets_ok(program, body):
    t = set(reachable_targets(program, body))
    for x in t:
        for y in t:
            if x != y and (y.startswith(x + '/') or x == ''):
                return False
    return True


def crash_hook(k):
    """point hook raising Crash at the k-th program point (1-based)"""
    def cb(ctx, n, label):
        if n == k:
            e = Crash('crash@%d:%s' % (k, label))
            with ctx.lock:
                ctx.booms.append(e)
                ctx.crashed_at = label
            raise e
    return cb
