"""C11: in-place mutation statements.  In the reference model every value that
crosses the API is a copy, so these statements have no effect there; on the real
library they have an effect exactly if some value is aliased with a cache record."""
import os

from .prog import EXT, H, do_query


def containers(v, out=None):
    if out is None:
        out = []
    if isinstance(v, (list, dict)):
        out.append(v)
        for x in (v.values() if isinstance(v, dict) else v):
            containers(x, out)
    elif isinstance(v, tuple):
        for x in v:
            containers(x, out)
    return out


def mutate(ctx, value, how, edge):
    """mutate the first suitable nested container of value in place"""
    cs = containers(value)
    done = False
    for c in (cs if how != 'deep' else list(reversed(cs))):
        if isinstance(c, list):
            if how in ('append', 'deep'):
                c.append('MUT')
                done = True
            elif how == 'remove' and c:
                c.pop(0)
                done = True
            elif how == 'clear' and c:
                c.clear()
                done = True
            elif how == 'edit' and c:
                c[0] = 'MUT'
                done = True
        else:
            if how in ('append', 'deep', 'edit'):
                c['MUT'] = 1
                done = True
            elif how in ('remove', 'clear') and c:
                c.pop(next(iter(c)))
                done = True
        if done:
            break
    with ctx.lock:
        ctx.muts = getattr(ctx, 'muts', [])
        ctx.muts.append((edge, how, done))
    return done


def st_mut_ret(ctx, fr, s, acc):
    # ['x', 'mut_ret', keepname, how]
    v = fr.vals.get(s[2])
    if v is not None:
        mutate(ctx, v, s[3], 'return-value')
    return acc


def st_mut_args(ctx, fr, s, acc):
    # ['x', 'mut_args', how]   (inside a callee)
    a = getattr(fr, 'args', None)
    if a is not None:
        mutate(ctx, (a, fr.kwargs), s[2], 'callee-args')
    return acc


def st_mut_q(ctx, fr, s, acc):
    # ['x', 'mut_q', kind, rel, how]
    kind, r, how = s[2], s[3], s[4]
    p = ctx.ap(r)
    try:
        if kind == 'list_dir':
            res = fr.b.list_dir(p)
            ans = ['ok', sorted(x for x in res if (r + '/' + x if r else x) not in ctx.mask)]
            names = list(res)
        else:
            res = fr.b.walk(p, kind == 'walk')
            ans = ['ok', sorted([ctx.rel(d), sorted(sd), sorted(sf)] for d, sd, sf in res)]
            if ctx.mask:
                ans = ['ok', [[d, [x for x in sd if (d + '/' + x if d else x) not in ctx.mask], sf]
                              for d, sd, sf in ans[1]
                              if d not in ctx.mask and not any(d.startswith(m + '/') for m in ctx.mask)]]
    except OSError as e:
        from .prog import errname
        ans = ['err', errname(e)]
        res = None
    with ctx.lock:
        ctx.qlog.append((fr.where, kind, r, 'M', ans))
    acc = H(acc, 'q', kind, r, 'M', ans)
    if res is not None:
        removed = None
        if kind == 'list_dir':
            if how == 'remove' and res:
                removed = os.path.join(r, sorted(res)[0]) if r else sorted(res)[0]
                res.remove(sorted(res)[0])
                done = True
            elif how == 'clear':
                done = bool(res)
                res.clear()
            else:
                res.append('MUT')
                done = True
            edge = 'list_dir-result'
        else:
            done = False
            edge = 'walk-result'
            if how == 'outer' and res:
                res.pop()
                done = True
            elif how == 'outer_append':
                # grow the OUTER list (also when the walk result is empty: a missing path, a regular file)
                res.append(('MUT', ['MUT'], []))
                done = True
            else:
                for d, sd, sf in res:
                    target = sd if how in ('prune', 'remove') else sf
                    if how == 'append':
                        target.append('MUT')
                        done = True
                        break
                    if target:
                        removed = os.path.join(ctx.rel(d), sorted(target)[0]) if ctx.rel(d) else sorted(target)[0]
                        target.remove(sorted(target)[0])
                        done = True
                        break
        with ctx.lock:
            ctx.muts = getattr(ctx, 'muts', [])
            ctx.muts.append((edge, how, done))
            if removed is not None:
                ctx.removed_names = getattr(ctx, 'removed_names', [])
                ctx.removed_names.append(removed)
    return acc


EXT['mut_ret'] = st_mut_ret
EXT['mut_args'] = st_mut_args
EXT['mut_q'] = st_mut_q
