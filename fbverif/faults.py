"""Byte-level write faults for the cache writer (E5): a proxy for the `gzip`
module global of file_builder.cache (and a shim for its module-global `open`) whose files fail on write."""
import errno
import sys


class _FailingFile:
    def __init__(self, f, plan):
        self._f = f
        self._plan = plan

    def write(self, data):
        plan = self._plan
        plan['writes'] += 1
        if plan['mode'] == 'first_write' and not plan['fired']:
            plan['fired'] = True
            raise plan['exc']
        if plan['mode'] == 'mid_write' and not plan['fired']:
            plan['fired'] = True
            half = data[:max(1, len(data) // 2)]
            self._f.write(half)
            raise plan['exc']
        return self._f.write(data)

    def __getattr__(self, n):
        return getattr(self._f, n)

    def __enter__(self):
        self._f.__enter__()
        return self

    def __exit__(self, *a):
        return self._f.__exit__(*a)

    def __iter__(self):
        return iter(self._f)


class GzipProxy:
    """stands in for the gzip module inside file_builder.cache"""

    def __init__(self, real):
        self._real = real
        self.plan = None

    def open(self, filename, mode='rb', *a, **kw):
        plan = self.plan
        if plan is not None and ('w' in mode or 'a' in mode or 'x' in mode):
            plan['opens'] += 1
            if plan['mode'] == 'open' and not plan['fired']:
                plan['fired'] = True
                raise plan['exc']
            return _FailingFile(self._real.open(filename, mode, *a, **kw), plan)
        return self._real.open(filename, mode, *a, **kw)

    def GzipFile(self, *a, **kw):
        """the same faults for a writer that uses gzip.GzipFile directly (with or without a file object)"""
        plan = self.plan
        real_cls = self._real.GzipFile
        mode = kw.get('mode', a[1] if len(a) > 1 else None) or ''
        if plan is None or not any(c in mode for c in 'wax'):
            return real_cls(*a, **kw)
        plan['opens'] += 1
        if plan['mode'] == 'open' and not plan['fired']:
            plan['fired'] = True
            raise plan['exc']

        class _FailingGzipFile(real_cls):
            def write(self2, data):
                plan['writes'] += 1
                if plan['mode'] == 'first_write' and not plan['fired']:
                    plan['fired'] = True
                    raise plan['exc']
                if plan['mode'] == 'mid_write' and not plan['fired']:
                    plan['fired'] = True
                    real_cls.write(self2, bytes(data)[:max(1, len(data) // 2)])
                    raise plan['exc']
                return real_cls.write(self2, data)
        return _FailingGzipFile(*a, **kw)

    def __getattr__(self, n):
        return getattr(self._real, n)


_proxy = None


def install_gzip_proxy():
    """returns the proxy (None only if file_builder.cache is not loaded).  Two interception points, so that the
    faults reach the cache writer however it is written: the module-global `gzip` of file_builder.cache (gzip.open,
    gzip.GzipFile) and the module-global name `open` of file_builder.cache (a writer that compresses by itself and
    writes the bytes with open(..., 'wb'), or that hands its own raw file to GzipFile)."""
    global _proxy
    if _proxy is not None:
        return _proxy
    mod = sys.modules.get('file_builder.cache')
    if mod is None:
        return None
    _proxy = GzipProxy(getattr(mod, 'gzip', None))
    if hasattr(mod, 'gzip'):
        mod.gzip = _proxy
    import builtins
    real_open = getattr(mod, 'open', builtins.open)
    proxy = _proxy

    def shim_open(file, mode='r', *a, **kw):
        plan = proxy.plan
        if plan is not None and isinstance(mode, str) and any(c in mode for c in 'wax'):
            plan['opens'] += 1
            if plan['mode'] == 'open' and not plan['fired']:
                plan['fired'] = True
                raise plan['exc']
            return _FailingFile(real_open(file, mode, *a, **kw), plan)
        return real_open(file, mode, *a, **kw)
    mod.open = shim_open
    return _proxy


def make_plan(mode, code='ENOSPC'):
    """code: an errno name (OSError) or the name of another exception class - serialising or
    encoding the cache can fail in ways that are not OS errors (ValueError from json, ...)"""
    if hasattr(errno, code):
        exc = OSError(getattr(errno, code), 'injected write fault')
    else:
        exc = {'ValueError': ValueError, 'RuntimeError': RuntimeError, 'TypeError': TypeError,
               'UnicodeEncodeError': lambda m: UnicodeEncodeError('utf-8', 'x', 0, 1, m),
               'RecursionError': RecursionError, 'MemoryError': MemoryError}[code]('injected write fault')
    return {'mode': mode, 'fired': False, 'opens': 0, 'writes': 0, 'exc': exc}
