"""Driver plumbing shared by all checks: sharding over subprocesses, merging,
triage against known_findings.json, evidence files, exit codes (DESIGN 1.7)."""
import fnmatch
import hashlib
import importlib
import json
import os
import subprocess
import sys
import threading
import time

VERIF = os.path.dirname(os.path.dirname(os.path.abspath(__file__)))
# selftest runs redirect evidence/replays to a scratch directory
OUT = os.environ.get('FBVERIF_OUT') or VERIF
PY = sys.executable or '/venv/bin/python'
NCPU = min(16, os.cpu_count() or 4)


class Shard:
    """what one shard process accumulates"""

    def __init__(self, prop, seed, tier, idx, n, budget_s):
        self.prop = prop
        self.seed = seed
        self.tier = tier
        self.idx = idx
        self.n = n
        self.t0 = time.time()
        self.budget_s = budget_s
        self.evaluations = 0
        self.nontrivial = set()
        self.samples = []
        self.counters = {}
        self.violations = []
        self.notes = []
        self.inconclusive = []
        self.exhaustive = None

    def time_left(self):
        return self.budget_s - (time.time() - self.t0)

    def count(self, name, k=1):
        self.counters[name] = self.counters.get(name, 0) + k

    def merge_counts(self, d, prefix=''):
        for k, v in d.items():
            if isinstance(v, (int, float)):
                self.count(prefix + k, v)

    def nt(self, key):
        self.nontrivial.add(hashlib.sha1(repr(key).encode()).hexdigest()[:16])

    def sample(self, obj, limit=3):
        if len(self.samples) < limit:
            self.samples.append(obj)

    def violation(self, sig, detail, case):
        """sig: mechanism signature (string); case: replayable data"""
        if len(self.violations) < 40:
            self.violations.append({'sig': sig, 'detail': detail, 'case': case})
        self.count('violations_raw')

    def dump(self, path):
        out = {
            'prop': self.prop, 'idx': self.idx, 'evaluations': self.evaluations,
            'nontrivial': sorted(self.nontrivial), 'samples': self.samples,
            'counters': self.counters, 'violations': self.violations,
            'notes': self.notes[:20], 'inconclusive': self.inconclusive,
            'exhaustive': self.exhaustive, 'wall_s': time.time() - self.t0,
        }
        with open(path, 'w') as f:
            json.dump(out, f, default=repr)


def shard_main():
    """entry point of a shard subprocess"""
    import argparse
    ap = argparse.ArgumentParser()
    ap.add_argument('prop')
    ap.add_argument('--seed', type=int, default=0)
    ap.add_argument('--tier', default='quick')
    ap.add_argument('--idx', type=int, default=0)
    ap.add_argument('--n', type=int, default=1)
    ap.add_argument('--budget', type=float, default=20.0)
    ap.add_argument('--out', required=True)
    a = ap.parse_args()
    mod = importlib.import_module('fbverif.checks.' + a.prop.lower())
    sh = Shard(a.prop, a.seed, a.tier, a.idx, a.n, a.budget)
    try:
        mod.run_shard(sh)
    except BaseException as e:  # noqa
        import traceback
        sh.inconclusive.append('shard crashed: ' + traceback.format_exc()[-1500:])
    sh.dump(a.out)


def load_known():
    p = os.path.join(VERIF, 'known_findings.json')
    if not os.path.exists(p):
        return []
    with open(p) as f:
        return json.load(f).get('findings', [])


def match_known(known, prop, sig):
    for k in known:
        if k.get('status') != 'open':
            continue
        if prop not in k.get('properties', [k.get('property')]):
            continue
        for pat in k.get('signatures', []):
            if sig == pat or fnmatch.fnmatchcase(sig, pat.replace('[', '[[]')):
                return k
    return None


def run_check(prop, tier=None, seed=None):
    tier = tier or os.environ.get('VERIF_TIER') or 'quick'
    if seed is None:
        seed = int(os.environ.get('VERIF_SEED', '0') or 0)
    mod = importlib.import_module('fbverif.checks.' + prop.lower())
    cfg = mod.CONFIG
    budget = cfg['budget'][tier]
    nsh = cfg.get('shards', {}).get(tier, NCPU)
    outdir = os.path.join(OUT, 'evidence', '.shards', prop)
    os.makedirs(outdir, exist_ok=True)
    for fn in os.listdir(outdir):
        os.remove(os.path.join(outdir, fn))
    t0 = time.time()
    env = dict(os.environ)
    env['PYTHONPATH'] = VERIF
    env['FILE_BUILDER_VERIF'] = '1'
    env.setdefault('PYTHONHASHSEED', '0')
    procs = []
    results = [None] * nsh

    def run_one(i):
        out = os.path.join(outdir, 'shard%d.json' % i)
        cmd = [PY, '-c', 'from fbverif.harness import shard_main; shard_main()', prop,
               '--seed', str(seed), '--tier', tier, '--idx', str(i), '--n', str(nsh),
               '--budget', str(budget), '--out', out]
        try:
            r = subprocess.run(cmd, cwd=VERIF, env=env, capture_output=True, text=True,
                               timeout=budget * 4 + 120)
            if os.path.exists(out):
                with open(out) as f:
                    results[i] = json.load(f)
                if r.returncode != 0:
                    results[i].setdefault('inconclusive', []).append(
                        'shard exit %d: %s' % (r.returncode, r.stderr[-400:]))
            else:
                results[i] = {'inconclusive': ['shard %d produced no output: rc=%s %s' % (
                    i, r.returncode, r.stderr[-800:])]}
        except subprocess.TimeoutExpired:
            results[i] = {'inconclusive': ['shard %d watchdog timeout' % i]}

    ths = [threading.Thread(target=run_one, args=(i,)) for i in range(nsh)]
    for t in ths:
        t.start()
    for t in ths:
        t.join()
    # ---- merge
    evaluations = 0
    nontrivial = set()
    samples = []
    counters = {}
    violations = []
    inconclusive = []
    notes = []
    exhaustive = None
    for r in results:
        if r is None:
            inconclusive.append('missing shard result')
            continue
        evaluations += r.get('evaluations', 0)
        nontrivial.update(r.get('nontrivial', []))
        for s in r.get('samples', []):
            if len(samples) < 4:
                samples.append(s)
        for k, v in r.get('counters', {}).items():
            counters[k] = counters.get(k, 0) + v
        violations.extend(r.get('violations', []))
        inconclusive.extend(r.get('inconclusive', []))
        notes.extend(r.get('notes', []))
        if r.get('exhaustive') is not None:
            exhaustive = r['exhaustive'] if exhaustive is None else (exhaustive and r['exhaustive'])
    # ---- gates
    for g in cfg.get('gates', []):
        if counters.get(g, 0) <= 0:
            inconclusive.append('gate counter %s is zero' % g)
    # ---- triage
    known = load_known()
    known_seen = {}
    unlisted = []
    for v in violations:
        k = match_known(known, prop, v['sig'])
        if k is not None:
            known_seen.setdefault(k['id'], [k, 0])
            known_seen[k['id']][1] += 1
        else:
            unlisted.append(v)
    lines = []
    rdir = os.path.join(OUT, 'replays', prop)
    if os.path.isdir(rdir):
        for fn in os.listdir(rdir):
            if fn.startswith('viol_'):
                os.remove(os.path.join(rdir, fn))
    seen_sigs = set()
    nviol = 0
    for v in unlisted:
        if v['sig'] in seen_sigs:
            continue
        seen_sigs.add(v['sig'])
        nviol += 1
        os.makedirs(rdir, exist_ok=True)
        h = hashlib.sha1(v['sig'].encode()).hexdigest()[:10]
        path = os.path.join(rdir, 'viol_%s.json' % h)
        with open(path, 'w') as f:
            json.dump({'property': prop, 'sig': v['sig'], 'detail': v['detail'],
                       'case': v['case'], 'seed': seed, 'tier': tier}, f, indent=1, default=repr)
        lines.append('VIOLATION property=%s replay=%s' % (prop, path))
        lines.append('  signature: %s' % v['sig'])
    for kid, (k, n) in sorted(known_seen.items()):
        lines.append('KNOWN-FINDING: property=%s %s: %s (seen %d times)' % (prop, kid, k['what'], n))
    wall = time.time() - t0
    ev = {
        'property_id': prop, 'tier': tier, 'seed': seed, 'level': cfg['level'],
        'coverage': {
            'evaluations': evaluations,
            'distinct_nontrivial': len(nontrivial),
            'rule': cfg['rule'],
            'samples': samples,
            'exhaustive': bool(exhaustive) if exhaustive is not None else False,
            'counters': dict(sorted(counters.items())),
            'shards': nsh,
            'known_findings_seen': {kid: n for kid, (k, n) in known_seen.items()},
            'inconclusive_reasons': inconclusive[:10],
            'notes': notes[:10],
        },
        'assumptions': cfg.get('assumptions', []) + COMMON_ASSUMPTIONS,
        'wall_s': round(wall, 2),
        'violations': nviol,
    }
    if cfg.get('exhaustive_layer'):
        ev['coverage']['exhaustive_layer'] = cfg['exhaustive_layer']
    os.makedirs(os.path.join(OUT, 'evidence'), exist_ok=True)
    with open(os.path.join(OUT, 'evidence', prop + '.json'), 'w') as f:
        json.dump(ev, f, indent=1, default=repr)
    for ln in lines:
        print(ln)
    print('%s tier=%s seed=%d evaluations=%d distinct_nontrivial=%d violations=%d known=%d wall=%.1fs' % (
        prop, tier, seed, evaluations, len(nontrivial), nviol, len(known_seen), wall))
    keyc = {k: v for k, v in counters.items() if not k.startswith('ev:')}
    print('  counters: ' + json.dumps(dict(sorted(keyc.items())))[:1500])
    if nviol:
        return 1
    if inconclusive:
        for r in inconclusive[:5]:
            print('INCONCLUSIVE property=%s reason=%s' % (prop, str(r)[:600]))
        return 2
    return 0


COMMON_ASSUMPTIONS = [
    'pure-Python library imported from the current working tree of /repo (FB_REPO overrides), fresh subprocess per shard',
    'Linux; sandbox and tempfile.tempdir on the same tmpfs (/dev/shm) so os.rename backups work; runs as root (no real permission faults)',
    'explicit strictly increasing mtime_ns on every user/external write (coarse kernel timestamps would blind METADATA)',
    'verdict = held on the executions observed; nothing is claimed about programs, histories, faults or schedules not generated',
]


def main():
    import argparse
    ap = argparse.ArgumentParser()
    ap.add_argument('prop')
    ap.add_argument('--tier', default=None)
    ap.add_argument('--seed', type=int, default=None)
    a = ap.parse_args()
    sys.exit(run_check(a.prop.upper(), a.tier, a.seed))


if __name__ == '__main__':
    main()
