"""C17: statements that use a builder instance beyond the life of its function."""
import threading

from .prog import EXT, H, errname
from .env import FileComparison

METHODS = ['is_file', 'is_dir', 'exists', 'get_size', 'list_dir', 'walk', 'read_text', 'read_binary',
           'declare_read', 'build_file', 'build_file_with_comparison', 'subbuild']


def call_method(ctx, b, method, r, invoked):
    p = ctx.ap(r)

    def fn(*a, **k):
        invoked.append(method)
        # the logical time at which the user function of a complex call returns (C17: a call whose
        # function returns after the owner's record was closed cannot complete normally)
        invoked.append(('t_fn_ret', ctx.clock()))
        return None
    def fn_raise(builder, *a, **k):
        # a nested function that is still running when its owner's record is closed, then makes an
        # observation nobody else makes and raises (C17r): the call must be rejected AND leave no trace
        invoked.append(method)
        st = getattr(ctx, 'late_started', None)
        if st is not None:
            st.set()
        ev = getattr(ctx, 'late_event', None)
        if ev is not None and not ev.wait(20):
            invoked.append(('timeout', 0))
        try:
            builder.exists(ctx.ap('probe'))
        finally:
            invoked.append(('t_fn_ret', ctx.clock()))
        raise ValueError('late function raises')
    if method == 'subbuild_raise':
        return b.subbuild('LATE', fn_raise, r)
    if method == 'build_file_raise':
        return b.build_file(p, 'LATE', fn_raise)
    if method == 'build_file':
        return b.build_file(p, 'LATE', fn)
    if method == 'build_file_with_comparison':
        return b.build_file_with_comparison(p, FileComparison.HASH, 'LATE', fn)
    if method == 'subbuild':
        return b.subbuild('LATE', fn, r)
    if method in ('read_text', 'read_binary'):
        f = getattr(b, method)(p)
        f.close()
        return 'file'
    if method == 'walk':
        return [list(map(list, [sd, sf])) for _d, sd, sf in b.walk(p)]
    return getattr(b, method)(p)


def st_stash(ctx, fr, s, acc):
    # ['x', 'stash', name]
    with ctx.lock:
        ctx.stash[s[2]] = fr.b
    return acc


def st_late(ctx, fr, s, acc):
    # ['x', 'late', name, method, rel]: use a stashed (finished) builder
    b = ctx.stash.get(s[2])
    if b is None:
        return acc      # the owner was served from the cache: there is no instance to misuse
    invoked = []
    mon = ctx.monitor
    n0 = len(mon.events) if mon is not None else 0
    try:
        v = call_method(ctx, b, s[3], s[4], invoked)
        out = ['ok', repr(v)[:60]]
    except Exception as e:
        out = ['exc', errname(e)]
    if ctx.real:
        with ctx.lock:
            ctx.late_calls = getattr(ctx, 'late_calls', 0) + 1
        if mon is not None:
            evs = [e for e in mon.events[n0:] if not e['user']]
            if evs:
                ctx.issue('late_call_fs_event', method=s[3], events=[e['ev'] for e in evs][:4])
        if invoked:
            ctx.issue('late_call_invoked_function', method=s[3])
        if out != ['exc', 'RuntimeError']:
            ctx.issue('late_call_not_rejected', method=s[3], outcome=out[:2])
    return acc


def st_fork_late(ctx, fr, s, acc):
    # ['x', 'fork_late', method, rel, tag]: a straggler thread uses THIS function's builder
    if not ctx.real:
        return acc
    b = fr.b
    method, r, tag = s[2], s[3], s[4]
    where = fr.where

    def worker():
        invoked = []
        import threading as _th
        tid = _th.get_ident()
        t_call = ctx.clock()
        try:
            v = call_method(ctx, b, method, r, invoked)
            out = ('ok', repr(v)[:40])
        except BaseException as e:  # noqa
            out = ('exc', e.__class__.__name__, str(e)[:60])
        t_ret = ctx.clock()
        with ctx.lock:
            ctx.stragglers.append({'tag': tag, 'where': where, 'method': method, 'path': r,
                                   't_call': t_call, 't_ret': t_ret, 'out': out, 'invoked': bool(invoked),
                                   't_fn_ret': max([x[1] for x in invoked if isinstance(x, tuple) and x[0] == 't_fn_ret']
                                                   or [None]),
                                   'fn_timeout': any(isinstance(x, tuple) and x[0] == 'timeout' for x in invoked),
                                   'thread': tid})
    fork = ctx.hooks.get('fork')
    if fork is not None:
        fork(worker)
    else:
        t = threading.Thread(target=worker, daemon=True)
        spanning = method.endswith('_raise')
        if spanning:
            ctx.late_event = threading.Event()
            ctx.late_started = threading.Event()
        with ctx.lock:
            ctx.free_threads = getattr(ctx, 'free_threads', []) + [t]
        t.start()
        if spanning:
            # the owner goes on (and returns) only when the straggler is inside its nested function
            ctx.late_started.wait(20)
    return acc


def st_late_release(ctx, fr, s, acc):
    # ['x', 'late_release']: the owner's call has returned; let the spanning straggler's function finish
    # and wait for the straggler before the enclosing function goes on
    if not ctx.real:
        return acc
    ev = getattr(ctx, 'late_event', None)
    if ev is not None:
        ev.set()
    for t in getattr(ctx, 'free_threads', []):
        t.join(20)
    return acc


EXT['late_release'] = st_late_release
EXT['stash'] = st_stash
EXT['late'] = st_late
EXT['fork_late'] = st_fork_late
