"""E2/E3/E7: one sandbox + reference model kept in lock-step; build/clean steps
run on both; comparison produces *divergence records* which the individual
checks select from (each property looks at the kinds it is about)."""
import os
import shutil
import threading
import traceback

from . import env
from .env import FileBuilder
from .model import (Model, ModelAPI, MBuild, must_run, iter_nodes, ancestors, Node)
from .monitor import FsMonitor, classify_lib_mutations
from .prog import Ctx, make_root, UserBoom, errname
from . import innerstmts  # noqa: F401  (registers the 'inner' statement)
from .jsonref import type_exact_equal, jsonable


class Divergence(dict):
    pass


def div(kind, **kw):
    d = Divergence(kind=kind)
    d.update(kw)
    return d


class StepResult:
    def __init__(self):
        self.divs = []
        self.mres = None
        self.rres = None
        self.mctx = None
        self.rctx = None
        self.mb = None
        self.pre = None
        self.post = None
        self.mon = None
        self.committed = False
        self.stats = {}
        self.exc_obj = None


class World:
    def __init__(self, scratch, cache_rel='cache.gz', build_name='n'):
        self.scratch = scratch
        self.sb = scratch.sb
        self.tmp = scratch.tmp
        self.cache = os.path.join(self.sb, cache_rel)
        self.cache_rel = cache_rel
        self.build_name = build_name
        self.model = Model(self.sb, self.cache)
        self.api = ModelAPI(self.model)
        self.steps = []          # concrete history (for replay)
        # (until the D16 repair, directories that exist only for the cache file were masked in
        #  comparisons as "C04 latitude"; the view is specified - they are not part of it - so nothing
        #  is masked any more)
        self.cache_dirs = []

    def ap(self, r):
        return os.path.join(self.sb, r) if r else self.sb

    # ------------------------------------------------------------ external mutations
    def _kind(self, p):
        e = self.model.disk.get(p)
        return None if e is None else e[0]

    def protected(self, p):
        return p == self.cache or p == self.sb

    def ext_write(self, r, data, log=True):
        p = self.ap(r)
        if self.protected(p) or self._kind(p) == 'd':
            return False
        for a in ancestors(p):
            if self._kind(a) == 'f':
                return False
            if len(os.fsencode(os.path.basename(a))) > 255:
                return False
        if len(os.fsencode(os.path.basename(p))) > 255:
            return False
        os.makedirs(os.path.dirname(p), exist_ok=True)
        if isinstance(data, str):
            data = data.encode()
        st = env.write_file(p, data)
        self.model.ext_put_file(p, data, st)
        if log:
            self.steps.append(['w', r, data.decode('latin-1')])
        return True

    def ext_mkdir(self, r):
        p = self.ap(r)
        for a in [p] + ancestors(p):
            if self._kind(a) == 'f' or a == self.cache:
                return False
            if len(os.fsencode(os.path.basename(a))) > 255:
                return False
        os.makedirs(p, exist_ok=True)
        self.model.ext_mkdir(p)
        self.steps.append(['mk', r])
        return True

    def ext_delete(self, r):
        p = self.ap(r)
        k = self._kind(p)
        if k is None or p == self.sb:
            return False
        if k == 'f':
            os.remove(p)
        else:
            shutil.rmtree(p)
        self.model.ext_delete(p)
        self.steps.append(['d', r])
        return True

    def ext_touch(self, r, delta_ns=None):
        """new mtime, same content; delta_ns: move the current mtime by that many ns instead of a fresh stamp"""
        p = self.ap(r)
        if self._kind(p) != 'f' or p == self.cache:
            return False
        if delta_ns is not None:
            st = os.stat(p).st_mtime_ns + delta_ns
            os.utime(p, ns=(st, st))
            e = self.model.disk[p]
            old = e[2]
            self.model.disk[p] = ('f', e[1], (old + delta_ns) if isinstance(old, int) else ('moved', old, delta_ns))
            self.steps.append(['touch', r, delta_ns])
            return True
        st = env.CLOCK.next()
        os.utime(p, ns=(st, st))
        e = self.model.disk[p]
        self.model.disk[p] = ('f', e[1], st)
        self.steps.append(['touch', r])
        return True

    def ext_recreate(self, r):
        """delete and re-create identically (new inode / listing position only)"""
        p = self.ap(r)
        if self._kind(p) != 'f' or p == self.cache:
            return False
        st = os.stat(p)
        with open(p, 'rb') as f:
            data = f.read()
        os.remove(p)
        with open(p, 'wb') as f:
            f.write(data)
        os.utime(p, ns=(st.st_atime_ns, st.st_mtime_ns))
        self.steps.append(['recreate', r])
        return True

    def ext_same_stamp_rewrite(self, r, data):
        """content change that preserves size and mtime (METADATA cannot see it)"""
        p = self.ap(r)
        if self._kind(p) != 'f' or p == self.cache:
            return False
        e = self.model.disk[p]
        if len(data) != len(e[1]) or data == e[1]:
            return False
        st = os.stat(p)
        with open(p, 'wb') as f:
            f.write(data)
        os.utime(p, ns=(st.st_atime_ns, st.st_mtime_ns))
        self.model.disk[p] = ('f', data, e[2])
        self.steps.append(['same_stamp_rewrite', r, data.decode('latin-1')])
        return True

    def ext_rewrite(self, r, data, keep_stamp):
        """general content change: new bytes, stamp kept or fresh (C13 factorial)"""
        p = self.ap(r)
        if self._kind(p) != 'f' or p == self.cache:
            return False
        if isinstance(data, str):
            data = data.encode()
        e = self.model.disk[p]
        st = os.stat(p)
        with open(p, 'wb') as f:
            f.write(data)
        if keep_stamp:
            os.utime(p, ns=(st.st_atime_ns, st.st_mtime_ns))
            self.model.disk[p] = ('f', data, e[2])
        else:
            ns = env.CLOCK.next()
            os.utime(p, ns=(ns, ns))
            self.model.disk[p] = ('f', data, ns)
        self.steps.append(['rewrite', r, data.decode('latin-1'), bool(keep_stamp)])
        return True

    def ext_delete_cache(self):
        if self._kind(self.cache) != 'f':
            return False
        os.remove(self.cache)
        del self.model.disk[self.cache]
        self.steps.append(['delcache'])
        return True

    # ------------------------------------------------------------ tree comparison
    def real_tree(self):
        return env.snapshot(self.sb)

    def model_tree(self):
        out = {}
        for p, e in self.model.disk.items():
            if p == self.sb or p.startswith(self.sb + '/'):
                out[p] = e
        return out

    def compare_tree(self, snap, allow_extra_empty_dirs=()):
        """real snapshot vs model disk: paths, types, bytes (not mtimes).
        Returns list of (rel, real, model) differences."""
        mt = self.model_tree()
        diffs = []
        for p in sorted(set(snap) | set(mt)):
            a, b = snap.get(p), mt.get(p)
            ka = None if a is None else a[0]
            kb = None if b is None else b[0]
            if p == self.cache:
                if ka != kb:
                    diffs.append((env.rel(self.sb, p), ka, kb))
                continue
            if ka != kb:
                diffs.append((env.rel(self.sb, p), ka, kb))
            elif ka == 'f' and a[1] != b[1]:
                diffs.append((env.rel(self.sb, p), 'f:' + _short(a[1]), 'f:' + _short(b[1])))
        return diffs

    # ------------------------------------------------------------ build on both
    def build(self, program, body, versions=None, *, fault=None, hooks=None,
              model_hooks=None, threads=True, label=None, compare=True, run_model=True,
              step_opts=None, model_setup_fail=None, model_after=None):
        """Run one build step on the model and on the real library and compare."""
        versions = versions or {}
        sr = StepResult()
        self.steps.append(['build', label, jsonable(versions)] +
                          ([] if isinstance(label, int) and not step_opts else [body]) +
                          ([step_opts] if step_opts else []))
        # ---- model (from scratch)
        mctx = Ctx(program, self.sb, False, versions=versions)
        mask = {env.rel(self.sb, d) for d in self.cache_dirs}
        mctx.mask = mask
        mctx.mb_getter = lambda: self.api.last_build
        if model_hooks:
            mctx.hooks.update(model_hooks)
        model_disk_before = dict(self.model.disk)
        model_record_before = self.model.record
        had_record = self.model.current_record()

        def run_the_model(setup_fail):
            if not run_model:
                # the build is expected to fail (crash point / injected fault): the
                # oracle is the unchanged pre-state, no model run is needed
                sr.mres = ['exc', '*']
                self.api.last_build = None
            else:
                try:
                    self.api.next_setup_fail = setup_fail
                    v = self.api.build_versioned(self.build_name, versions, make_root(mctx, body))
                    sr.mres = ['ok', v]
                except UserBoom as e:
                    sr.mres = ['exc', 'UserBoom']
                except Exception as e:
                    if isinstance(e, AssertionError):
                        raise
                    sr.mres = ['exc', errname(e)]
                    sr.model_tb = traceback.format_exc()
            sr.mctx = mctx
            sr.mb = self.api.last_build
        if model_after is None:
            run_the_model(model_setup_fail)
        sr.prev_record = had_record
        # ---- real
        sr.pre = self.real_tree()
        rctx = Ctx(program, self.sb, True, versions=versions)
        rctx.mask = mask
        if hooks:
            rctx.hooks.update(hooks)
        rctx.hooks.setdefault('threads', threads)
        mon = FsMonitor(self.sb, self.tmp)
        mon.fault = fault
        if fault is not None:
            rctx.hooks['faults_active'] = True
            def _on_fire():
                fc = rctx.current_call()
                rctx.fault_call = fc
                # ordinal of this call among the calls with the same key (0-based)
                rctx.fault_call_ordinal = len(rctx.outcomes.get(fc, [])) if fc is not None else 0
            fault.on_fire = _on_fire
        rctx.monitor = mon
        sr.mon = mon
        if rctx.hooks.get('fs_yield') is not None:
            mon.on_lib_event = rctx.hooks['fs_yield']
        if rctx.hooks.get('event_clock'):
            mon.clock = rctx.clock
        root = make_root(rctx, body)

        def wrapped_root(b):
            mon.set_phase('root')
            try:
                return root(b)
            finally:
                mon.set_phase('post-root')
        tmp_before = sorted(os.listdir(self.tmp))
        with mon:
            mon.set_phase('pre-root')
            try:
                v = FileBuilder.build_versioned(self.cache, self.build_name, versions,
                                                wrapped_root)
                sr.rres = ['ok', v]
            except Exception as e:
                sr.rres = ['exc', errname(e)]
                sr.exc_obj = e
                sr.real_tb = traceback.format_exc()
            finally:
                mon.set_phase('after-api')
            cb = rctx.hooks.get('after_api')
            if cb is not None:
                # e.g. join straggler threads that use a finished builder (C17)
                cb(rctx, sr)
            mon.set_phase('outside')
        if model_after is not None:
            # the model is told which call failed in setup (and how) by what was
            # observed in the real run (fault injection, C14)
            run_the_model(model_after(rctx, mon, sr))
        sr.rctx = rctx
        sr.post = self.real_tree()
        sr.tmp_left = [n for n in sorted(os.listdir(self.tmp)) if n not in tmp_before]
        sr.committed = sr.mres[0] == 'ok'
        if not sr.committed:
            # model: failed build leaves the pre-state
            self.model.disk = model_disk_before
            self.model.record = model_record_before
        if compare:
            self.compare_build(sr)
        return sr

    # ------------------------------------------------------------ comparison
    def compare_build(self, sr):
        divs = sr.divs
        mctx, rctx, mb = sr.mctx, sr.rctx, sr.mb
        # results
        same_res = sr.mres[0] == sr.rres[0] and (
            type_exact_equal(sr.mres[1], sr.rres[1]) if sr.mres[0] == 'ok'
            else (sr.mres[1] == sr.rres[1] or sr.mres[1] == '*'))
        # queries (aligned per executing function instance)
        mq = {}
        for where, kind, r, mode, ans in mctx.qlog:
            mq.setdefault(where, []).append((kind, r, mode, ans))
        seen = {}
        qdivs = []
        for where, kind, r, mode, ans in rctx.qlog:
            i = seen.get(where, 0)
            seen[where] = i + 1
            lst = mq.get(where)
            if lst is None or i >= len(lst):
                continue
            mk, mr, mmode, mans = lst[i]
            if (mk, mr, mmode) != (kind, r, mode):
                break   # control flow already diverged; later answers are not comparable
            if mans != ans:
                if self.masked_query(kind, r, ans, mans):
                    continue
                qdivs.append(div('query', where=where, q=kind, path=r, mode=mode,
                                 real=ans, model=mans, pathclass=self.path_class(sr, r),
                                 diff=self.answer_diff(sr, kind, r, ans, mans)))
                break
        divs.extend(qdivs)
        if not same_res:
            cause = None
            if qdivs:
                q = qdivs[0]
                cause = 'query|%s|%s' % (q['q'], q.get('diff') or q.get('pathclass'))
            divs.append(div('result', real=_res(sr.rres), model=_res(sr.mres),
                            real_tb=getattr(sr, 'real_tb', None), cause=cause))
        # client-side monitor findings
        for it in rctx.issues:
            divs.append(div('issue', **it))
        # exception identity at the top
        if sr.rres[0] == 'exc' and isinstance(sr.exc_obj, UserBoom):
            if not any(sr.exc_obj is o for o in rctx.booms):
                divs.append(div('exception_identity_root'))
        # tree
        if sr.committed and sr.rres[0] == 'ok':
            diffs = self.compare_tree(sr.post)
            if diffs:
                divs.append(div('tree', phase='commit', diffs=diffs[:6],
                                classes=[self.path_class(sr, d[0]) for d in diffs[:6]]))
        elif not sr.committed and sr.rres[0] == 'exc':
            self.compare_rollback(sr)
        # invocations
        if sr.committed and sr.rres[0] == 'ok':
            self.compare_invocations(sr)
        # leftovers in the temp dir
        if sr.tmp_left:
            divs.append(div('tmp_leftover', names=sr.tmp_left[:3]))
        # C03: event-level + snapshot-level
        self.check_events(sr)
        self.check_foreign(sr, 'build')

    def masked_query(self, kind, r, ans, mans):
        """C04 latitude: directories that exist only to hold the cache file are
        not observed - drop them from listings before comparing."""
        if not self.cache_dirs:
            return False
        names = {env.rel(self.sb, d) for d in self.cache_dirs}

        def strip(a):
            if a[0] != 'ok':
                return a
            v = a[1]
            if kind == 'list_dir':
                top = {n.split('/')[0] for n in names} if r == '' else set()
                return ['ok', [x for x in v if (os.path.join(r, x) if r else x) not in names]]
            if kind in ('walk', 'walk_bu'):
                out = []
                for d, sd, sf in v:
                    if d in names or any(d.startswith(n + '/') for n in names):
                        continue
                    out.append([d, [x for x in sd if (os.path.join(d, x) if d else x) not in names], sf])
                return ['ok', out]
            return a
        return strip(ans) == strip(mans)

    def answer_diff(self, sr, kind, r, ans, mans):
        """for listing-type answers: which entry differs and what kind of path it is"""
        try:
            if ans[0] != 'ok' or mans[0] != 'ok':
                return None
            if kind == 'list_dir':
                a = {(r + '/' + n) if r else n for n in ans[1]}
                b = {(r + '/' + n) if r else n for n in mans[1]}
            elif kind in ('walk', 'walk_bu'):
                def paths(v):
                    out = set()
                    for d, sd, sf in v:
                        out.add(d)
                        for n in sd + sf:
                            out.add((d + '/' + n) if d else n)
                    return out
                a, b = paths(ans[1]), paths(mans[1])
            else:
                return None
            extra, missing = sorted(a - b), sorted(b - a)
            if extra:
                return 'extra:' + self.path_class(sr, extra[0])
            if missing:
                return 'missing:' + self.path_class(sr, missing[0])
        except Exception:
            return None
        return None

    def path_class(self, sr, r):
        """mechanism-level description of a path for signatures"""
        p = self.ap(r)
        rec = sr.prev_record
        tags = []
        pre = sr.pre.get(p)
        tags.append('pre:' + ('-' if pre is None else pre[0]))
        if rec is not None:
            if p in rec.outputs:
                tags.append('rec-output')
            if p in rec.created_dirs:
                tags.append('rec-created-dir')
            if any(p.startswith(o + '/') for o in rec.outputs):
                tags.append('below-rec-output')
            if any(p.startswith(d + '/') for d in rec.created_dirs):
                tags.append('in-rec-created-dir')
        if p == self.cache:
            tags.append('cache')
        if sr.mb is not None:
            if p in sr.mb.error_removed:
                tags.append('error-created-dir')
            if p in sr.mb.claimed_files:
                tags.append('target')
            if any(t.startswith(p + '/') for t in sr.mb.claimed_files):
                tags.append('target-ancestor')
            if any(p.startswith(t + '/') for t in sr.mb.claimed_files):
                tags.append('below-target')
        return ','.join(tags)

    def compare_rollback(self, sr):
        """C02: after a failed build every pre-existing regular file is there with
        identical bytes and mtime; nothing new remains, except empty directories the
        previous committed build recorded as created."""
        pre, post = sr.pre, sr.post
        rec = sr.prev_record
        allowed_dirs = set(rec.created_dirs) if rec is not None else set()
        diffs = []
        for p in sorted(set(pre) | set(post)):
            a, b = pre.get(p), post.get(p)
            if a is None:
                if b[0] == 'd' and p in allowed_dirs:
                    # latitude: reappears empty (or holding only such directories)
                    self.model.ext_mkdir(p)
                    sr.stats['rollback_dir_reappeared'] = sr.stats.get('rollback_dir_reappeared', 0) + 1
                    continue
                diffs.append((env.rel(self.sb, p), 'new:' + b[0], self.path_class(sr, env.rel(self.sb, p))))
            elif b is None:
                diffs.append((env.rel(self.sb, p), 'lost:' + a[0], self.path_class(sr, env.rel(self.sb, p))))
            elif a[0] != b[0]:
                diffs.append((env.rel(self.sb, p), 'type:%s->%s' % (a[0], b[0]), self.path_class(sr, env.rel(self.sb, p))))
            elif a[0] == 'f':
                if a[1] != b[1]:
                    diffs.append((env.rel(self.sb, p), 'bytes', self.path_class(sr, env.rel(self.sb, p))))
                elif a[2] != b[2]:
                    diffs.append((env.rel(self.sb, p), 'mtime', self.path_class(sr, env.rel(self.sb, p))))
        if diffs:
            sr.divs.append(div('rollback_tree', diffs=diffs[:6]))

    def compare_invocations(self, sr):
        mb = sr.mb
        need = must_run(mb)
        need_keys = {n.key: n for n in need}
        inv = [k for (_t, k, _f) in sr.rctx.log]
        inv_set = set(inv)
        allnodes = {n.key: n for n in iter_nodes(mb.roots) if not n.setup}
        # more than once per key
        if len(inv) != len(inv_set):
            dup = [k for k in inv_set if inv.count(k) > 1]
            sr.divs.append(div('invoked_twice', keys=[_k(self, k) for k in dup][:3]))
        extra = [k for k in inv_set if k not in need_keys]
        # an unspecified answer (size of a directory, visibility of cache-only
        # directories) was recorded somewhere in this build: the library may
        # legitimately re-execute that call, rewrite its output and thereby
        # invalidate its readers - effectiveness is not judged for this build
        build_tainted = any(n.taint for n in iter_nodes(mb.roots))
        sr.stats['tainted_builds'] = 1 if build_tainted else 0
        sr.stats['c05_judged_builds'] = 0 if build_tainted else 1
        # report only top-most extra invocations (children of an extra parent follow from it)
        tops = []
        for k in extra:
            n = allnodes.get(k)
            if n is None:
                tops.append((k, 'not-in-model-run', False))
                continue
            tops.append((k, n.why, n.taint or _tainted(n)))
        parent_of = {}

        def fill(children, par):
            for c in children:
                if isinstance(c, Node) and not c.setup:
                    parent_of[c.key] = par
                    fill(c.sub, c)
        fill(mb.roots, None)
        extra_set = set(extra)
        for k, why, taint in tops:
            par = parent_of.get(k)
            under_extra = False
            while par is not None:
                if par.key in extra_set:
                    under_extra = True
                    break
                par = parent_of.get(par.key)
            if under_extra or taint or build_tainted:
                continue
            n = allnodes.get(k)
            sr.divs.append(div('extra_invocation', key=_k(self, k), why=why,
                               func=None if n is None else n.func))
        missing = [k for k in need_keys if k not in inv_set]
        for k in missing[:3]:
            sr.divs.append(div('missing_invocation', key=_k(self, k), why=need_keys[k].why))
        # reused outputs must not be rewritten (same inode and mtime)
        for n in iter_nodes(mb.roots):
            if n.t == 'bf' and not n.raised and n.reusable and not build_tainted:
                a, b = sr.pre.get(n.path), sr.post.get(n.path)
                if a is not None and b is not None and a[0] == 'f' and b[0] == 'f':
                    if a[2] != b[2] or a[3] != b[3]:
                        sr.divs.append(div('reused_output_rewritten', path=env.rel(self.sb, n.path),
                                           what='mtime' if a[2] != b[2] else 'inode'))
        sr.stats['must_run'] = len(need)
        sr.stats['invoked'] = len(inv)
        sr.stats['reusable'] = sum(1 for n in iter_nodes(mb.roots) if n.reusable)
        sr.stats['hits_top'] = sum(1 for n in _top_reusable(mb))

    def check_events(self, sr):
        """C03 event-level assertion against the model's record (not the library's)."""
        rec = sr.prev_record
        allowed_files = set(sr.mb.claimed_files) if sr.mb is not None else set()
        # targets the real program attempted (the model may have stopped earlier)
        for (r, ok, exc, ex) in sr.rctx.peeks:
            allowed_files.add(self.ap(r))
        allowed_rmdirs = set()
        if rec is not None:
            allowed_files |= set(rec.outputs)
            allowed_rmdirs |= set(rec.created_dirs)
        # nothing the library does during a call may touch a path outside the sandbox and its private
        # temp dir (e.g. paths remembered from an earlier build of the same process)
        base = os.path.dirname(self.sb) + os.sep
        for e in sr.mon.events:
            if e['user'] or e['ev'] in ('os.listdir', 'os.scandir'):
                continue
            out = [p for p in e['paths'] if not p.startswith('<') and not (p + os.sep).startswith(base)]
            if out:
                sr.divs.append(div('foreign_event', ev=e['ev'], phase=e['phase'], paths=out[:2],
                                   classes=['outside-sandbox']))
                break
        bad = classify_lib_mutations(sr.mon, allowed_files, allowed_rmdirs, self.tmp, self.cache)
        for e in bad:
            if e['ev'] == 'os.rmdir':
                p = e['paths'][0]
                a, b = sr.pre.get(p), sr.post.get(p)
                if not (a is not None and a[0] == 'd' and b is None):
                    continue
            elif all(sr.pre.get(p) is None for p in e['paths'] if p not in allowed_files and p != self.cache):
                # a path that did not exist before the call cannot be a foreign file: the
                # library may use transient files of its own (e.g. write-then-rename)
                continue
            sr.divs.append(div('foreign_event', ev=e['ev'], phase=e['phase'],
                               paths=[env.rel(self.sb, p) for p in e['paths']],
                               classes=[self.path_class(sr, env.rel(self.sb, p)) for p in e['paths']]))
            break

    def managed_sets(self, sr):
        rec = sr.prev_record
        files = set()
        if sr.mb is not None:
            files |= set(sr.mb.claimed_files)
        if sr.rctx is not None:
            for (r, ok, exc, ex) in sr.rctx.peeks:
                files.add(self.ap(r))
        dirs = set()
        if rec is not None:
            files |= set(rec.outputs)
            dirs |= set(rec.created_dirs)
        files.add(self.cache)
        return files, dirs

    def check_foreign(self, sr, phase):
        """C03 snapshot-level: every regular file outside the managed set keeps bytes,
        mtime and inode; every directory that is not a recorded created directory
        stays.  (Files at managed paths are judged by C01/C02.)"""
        files, dirs = self.managed_sets(sr)
        bad = []
        for p, a in sr.pre.items():
            b = sr.post.get(p)
            if a[0] == 'f' and p not in files:
                if b is None:
                    bad.append((env.rel(self.sb, p), 'file-deleted'))
                elif b[0] != 'f':
                    bad.append((env.rel(self.sb, p), 'file-replaced'))
                elif a[1] != b[1]:
                    bad.append((env.rel(self.sb, p), 'bytes'))
                elif a[2] != b[2]:
                    bad.append((env.rel(self.sb, p), 'mtime'))
                elif a[3] != b[3]:
                    bad.append((env.rel(self.sb, p), 'inode(moved)'))
            elif a[0] == 'd' and p not in dirs and p != self.sb:
                if b is None or b[0] != 'd':
                    # a directory may legitimately disappear only if a build created it:
                    # directories made by the library during this very call never are in pre
                    bad.append((env.rel(self.sb, p), 'dir-removed'))
        if bad:
            sr.divs.append(div('foreign_changed', phase=phase, what=bad[:4],
                               classes=[self.path_class(sr, r) for r, _ in bad[:4]]))

    # ------------------------------------------------------------ twin (literal C01 oracle)
    def twin_build(self, program, body, versions=None):
        """Run the same root with the same versions and *no cache* by the real
        library on a copy of the sandbox from which - according to the model's
        record - previous outputs, the cache file and emptied created directories
        were deleted.  Must be called before the incremental build of the step.
        Returns (result, tree) with tree: rel -> ('d',)|('f', bytes)."""
        versions = versions or {}
        saved = self.sb + '.twin'
        if os.path.exists(saved):
            shutil.rmtree(saved)
        os.rename(self.sb, saved)
        try:
            _copy_tree_exact(saved, self.sb)
            rec = self.model.current_record()
            if os.path.isfile(self.cache):
                os.remove(self.cache)
            if rec is not None:
                for p in rec.outputs:
                    if os.path.isfile(p) and not os.path.islink(p):
                        os.remove(p)
                for d in sorted(rec.created_dirs, key=lambda x: -len(x)):
                    try:
                        os.rmdir(d)
                    except OSError:
                        pass
            ctx = Ctx(program, self.sb, True, versions=versions)
            ctx.mask = {env.rel(self.sb, d) for d in self.cache_dirs}
            ctx.hooks['threads'] = False
            try:
                v = FileBuilder.build_versioned(self.cache, self.build_name, versions,
                                                make_root(ctx, body))
                res = ['ok', v]
            except Exception as e:
                res = ['exc', errname(e)]
            snap = env.snapshot(self.sb, with_meta=False)
            tree = {}
            for p, e in snap.items():
                r = env.rel(self.sb, p)
                tree[r] = ('f', b'<cache>') if p == self.cache and e[0] == 'f' else e
            return res, tree, ctx
        finally:
            shutil.rmtree(self.sb, ignore_errors=True)
            os.rename(saved, self.sb)

    def compare_twin(self, sr, twin):
        tres, ttree, tctx = twin
        same_res = sr.rres[0] == tres[0] and (
            type_exact_equal(sr.rres[1], tres[1]) if tres[0] == 'ok' else sr.rres[1] == tres[1])
        if not same_res:
            sr.divs.append(div('twin_result', real=_res(sr.rres), twin=_res(tres)))
        if sr.rres[0] == 'ok' and tres[0] == 'ok':
            diffs = []
            post = {}
            for p, e in sr.post.items():
                r = env.rel(self.sb, p)
                post[r] = ('f', b'<cache>') if p == self.cache and e[0] == 'f' else (
                    e if e[0] != 'f' else ('f', e[1]))
            for r in sorted(set(post) | set(ttree)):
                a, b = post.get(r), ttree.get(r)
                if a != b:
                    diffs.append((r, None if a is None else a[0], None if b is None else b[0]))
            if diffs:
                sr.divs.append(div('twin_tree', diffs=diffs[:6],
                                   classes=[self.path_class(sr, d[0]) for d in diffs[:6]]))
        # the model must agree with the twin as well (model validation)
        msame = sr.mres[0] == tres[0] and (
            type_exact_equal(sr.mres[1], tres[1]) if tres[0] == 'ok' else sr.mres[1] == tres[1])
        if not msame:
            sr.divs.append(div('model_mismatch', model=_res(sr.mres), twin=_res(tres)))

    # ------------------------------------------------------------ clean on both
    def clean(self, build_name='__same__', compare=True):
        sr = StepResult()
        self.steps.append(['clean'])
        bn = self.build_name if build_name == '__same__' else build_name
        sr.prev_record = self.model.current_record()
        try:
            self.api.clean(bn)
            sr.mres = ['ok', None]
        except Exception as e:
            sr.mres = ['exc', errname(e)]
        sr.pre = self.real_tree()
        mon = FsMonitor(self.sb, self.tmp)
        sr.mon = mon
        tmp_before = sorted(os.listdir(self.tmp))
        with mon:
            mon.set_phase('clean')
            try:
                FileBuilder.clean(self.cache, bn)
                sr.rres = ['ok', None]
            except Exception as e:
                sr.rres = ['exc', errname(e)]
        sr.post = self.real_tree()
        sr.tmp_left = [n for n in sorted(os.listdir(self.tmp)) if n not in tmp_before]
        if compare:
            if sr.mres != sr.rres:
                sr.divs.append(div('clean_result', real=sr.rres, model=sr.mres))
            diffs = self.compare_tree(sr.post)
            if diffs:
                sr.divs.append(div('clean_tree', diffs=diffs[:6],
                                   classes=[self.path_class(sr, d[0]) for d in diffs[:6]]))
            if sr.tmp_left:
                sr.divs.append(div('tmp_leftover', names=sr.tmp_left[:3]))
            rec = sr.prev_record
            self.check_foreign(sr, 'clean')
            allowed_files = set(rec.outputs) if rec else set()
            allowed_rmdirs = set(rec.created_dirs) if rec else set()
            bad = classify_lib_mutations(mon, allowed_files, allowed_rmdirs, self.tmp, self.cache)
            for e in bad:
                if e['ev'] == 'os.rmdir':
                    p = e['paths'][0]
                    a, b = sr.pre.get(p), sr.post.get(p)
                    if not (a is not None and a[0] == 'd' and b is None):
                        continue
                elif all(sr.pre.get(p) is None for p in e['paths'] if p not in allowed_files and p != self.cache):
                    continue
                sr.divs.append(div('foreign_event', ev=e['ev'], phase='clean',
                                   paths=[env.rel(self.sb, p) for p in e['paths']]))
                break
        return sr

    # ------------------------------------------------------------ copies
    def fork(self):
        """a copy of this world (real tree copied with exact mtimes, model deep-copied)
        in a fresh scratch directory *at a different path*.  Only usable when the
        program does not depend on absolute paths -- ours do (paths are recorded in
        the cache), therefore fork() is not offered; use save()/restore()."""
        raise NotImplementedError

    def save(self):
        """snapshot the real sandbox (rename aside + exact copy back) and the model"""
        saved = self.sb + '.saved%d' % len(getattr(self, '_saves', []))
        self._saves = getattr(self, '_saves', []) + [saved]
        if os.path.exists(saved):
            shutil.rmtree(saved)
        _copy_tree_exact(self.sb, saved)
        return (saved, dict(self.model.disk), self.model.record, list(self.steps))

    def restore(self, token, keep=False):
        saved, disk, record, steps = token
        shutil.rmtree(self.sb)
        if keep:
            _copy_tree_exact(saved, self.sb)
        else:
            os.rename(saved, self.sb)
            self._saves.remove(saved)
        self.model.disk = dict(disk)
        self.model.record = record
        self.steps = list(steps)

    def discard(self, token):
        saved = token[0]
        shutil.rmtree(saved, ignore_errors=True)
        if saved in getattr(self, '_saves', []):
            self._saves.remove(saved)


def _copy_tree_exact(src, dst):
    """copy preserving mtimes exactly (ns) for files; directories' mtimes are irrelevant"""
    os.mkdir(dst)
    for n in os.listdir(src):
        s, d = os.path.join(src, n), os.path.join(dst, n)
        st = os.lstat(s)
        import stat as _s
        if _s.S_ISDIR(st.st_mode):
            _copy_tree_exact(s, d)
        elif _s.S_ISLNK(st.st_mode):
            os.symlink(os.readlink(s), d)
        else:
            with open(s, 'rb') as f:
                data = f.read()
            with open(d, 'wb') as f:
                f.write(data)
            os.utime(d, ns=(st.st_atime_ns, st.st_mtime_ns))


def _short(b):
    if b is None:
        return 'None'
    return b[:16].decode('latin-1')


def _res(r):
    if r[0] == 'ok':
        return ['ok', repr(r[1])[:120]]
    return list(r)


def _k(world, k):
    if k[0] == 'bf':
        return ['bf', env.rel(world.sb, k[1])]
    return ['sb', repr(k[1])[:100]]


def _tainted(n):
    return any(c.taint for c in iter_nodes(n.sub))


def _tainted_up(n, parent_of):
    while n is not None:
        if n.taint:
            return True
        n = parent_of.get(n.key)
    return False


def _top_reusable(mb):
    def rec(children):
        for c in children:
            if isinstance(c, Node):
                if c.reusable:
                    yield c
                elif not c.setup:
                    yield from rec(c.sub)
    return rec(mb.roots)
