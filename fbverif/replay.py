"""Re-execute a stored case: {'program':..., 'steps':[...], 'cache_rel':...}."""
import json
import sys

from . import env
from .env import Scratch
from .world import World


def apply_step(w, program, st, **kw):
    op = st[0]
    if op == 'build':
        label = st[1]
        body = st[3] if len(st) > 3 else program['roots'][label]
        opts = st[4] if len(st) > 4 else None
        if opts:
            kw = dict(kw)
            kw.update(build_kwargs(opts, w))
            kw.pop('_scheduler', None)
            kw['step_opts'] = opts
        return w.build(program, body, st[2] or {}, label=label, **kw)
    if op == 'clean':
        return w.clean()
    if op == 'w':
        w.ext_write(st[1], st[2].encode('latin-1'))
    elif op == 'd':
        w.ext_delete(st[1])
    elif op == 'mk':
        w.ext_mkdir(st[1])
    elif op == 'touch':
        w.ext_touch(st[1], st[2] if len(st) > 2 else None)
    elif op == 'recreate':
        w.ext_recreate(st[1])
    elif op == 'same_stamp_rewrite':
        w.ext_same_stamp_rewrite(st[1], st[2].encode('latin-1'))
    elif op == 'rewrite':
        w.ext_rewrite(st[1], st[2].encode('latin-1'), st[3])
    elif op == 'delcache':
        w.ext_delete_cache()
    else:
        raise ValueError(st)
    return None


def build_kwargs(opts, w=None):
    """World.build keyword arguments for a recorded crash point / injected fault"""
    import errno
    from .prog import crash_hook
    from .monitor import Fault
    kw = {}
    if 'crash_at' in opts:
        kw['hooks'] = {'point': crash_hook(opts['crash_at'])}
        kw['run_model'] = False
    if 'fault' in opts:
        f = opts['fault']
        code = getattr(errno, f.get('errno', 'EIO'))
        cls = {'OSError': OSError, 'PermissionError': PermissionError}[f.get('cls', 'OSError')]
        kw['fault'] = Fault(f['k'], set(f['kinds']), set(f['phases']),
                            lambda path, cls=cls, code=code: cls(code, 'injected fault', path))
        if f.get('in_tmp'):
            kw['fault'].path_in_tmp = True
        if f.get('expect_fail', True):
            kw['run_model'] = False
    if 'schedule' in opts:
        from . import sched
        sched.install()
        st = dict(opts['schedule'])
        if 'at' in st:
            st['at'] = {int(k): v for k, v in st['at'].items()}
        sc = sched.Scheduler(st)
        kw.setdefault('hooks', {})['spawn'] = sc.spawn
        kw['hooks']['fs_yield'] = sc.fs_yield
        kw['_scheduler'] = sc
    if opts.get('c14') and 'fault' in opts and opts['fault'].get('phases') == ['root']:
        from .checks.c14 import model_after
        kw['model_after'] = model_after
    if 'model_setup_fail' in opts and w is not None:
        kw['model_setup_fail'] = {w.ap(r): OSError(errno.EIO, 'injected fault (model)')
                                  for r in opts['model_setup_fail']}
    return kw


def replay(case, verbose=True):
    program = case['program']
    out = []
    with Scratch('r') as sc:
        w = World(sc, case.get('cache_rel', 'cache.gz'))
        for st in case['steps']:
            sr = apply_step(w, program, st)
            if sr is not None:
                if verbose:
                    print('STEP', st[:3], 'real', sr.rres, 'model', sr.mres)
                    print('  RLOG', [(t, env.rel(w.sb, str(k[1]))[:50], f) for t, k, f in sr.rctx.log] if sr.rctx else None)
                    print('  MLOG', [(t, env.rel(w.sb, str(k[1]))[:50], f) for t, k, f in sr.mctx.log] if sr.mctx else None)
                    for d in sr.divs:
                        print('  DIV', dict(d))
                out.append(sr)
    return out


if __name__ == '__main__':
    case = json.load(open(sys.argv[1]))
    srs = replay(case)
    sys.exit(1 if any(sr.divs for sr in srs) else 0)
