"""C06 version changes invalidate exactly the function and its transitive callers."""
import random

from .common import signature, detail, case_of, account_build, nested_cache_rel
from ..env import Scratch
from ..world import World
from ..gen import GenCfg, gen_program, program_shape
from ..hist import random_mutation
from ..model import iter_nodes, Node
from ..jsonref import canon, roundtrip

CONFIG = {
    'level': 'exploration',
    'budget': {'quick': 30, 'thorough': 480},
    'rule': ('random call graphs (depth <= 4, shared callees, caught failures) x pairs (old version map, new version '
             'map): after a committed build with the old map a build with the new map and NO other change must '
             'invoke exactly the calls the reference model marks (functions whose version differs as a JSON value - '
             'absent == None, key order irrelevant, 1 == 1.0, tuple == list, True != 1 - plus their transitive '
             'callers, plus calls that are never cacheable), and its result and tree must equal the model run with '
             'the new versions; JSON-equal respellings must invoke nothing new; version entries for names that are not '
             'functions of the program (harvested from the library\'s public API names and from every string in the '
             'cache file it wrote: read, walk, list_dir, createdDirs, ...) must invalidate nothing; evaluations = version-pair builds '
             'judged; distinct_nontrivial = distinct (program shape, changed-name positions, kind of change)'),
    'gates': ['pairs', 'invalidated_nested', 'invalidated_top', 'stayed_cached_nested', 'stayed_cached_top',
              'json_equal_respelling_pairs', 'json_different_pairs', 'foreign_version_names'],
}

DIFF = [(None, 0), (0, 1), (1, 2), (True, 1), (False, 0), ('1', 1), ([1, 2], [2, 1]), ({'a': 1}, {'a': 2}),
        ('v1', 'v2'), (None, False), (1.5, 1), ([], {}), ([1], [[1]]), ('', None), ({'a': None}, {}),
        ({'a': None}, {'b': None}), ([], None), ({}, None), ('', False), ({'a': 1}, {'a': 1, 'b': None}), (0.0, None),
        ([None], []), ('0', 0), ({'': 1}, {}), ([[]], [])]
SAME = [(1, 1.0), ({'a': 1, 'b': 2}, {'b': 2, 'a': 1}), ([1, 2], (1, 2)), (0, -0.0), ('v', 'v'),
        ({'a': [1, {'b': 2.0}]}, {'a': (1, {'b': 2})}), (2 ** 53, float(2 ** 53)), (None, None)]
KINDS = {'result', 'tree', 'extra_invocation', 'missing_invocation', 'reused_output_rewritten'}


_API_NAMES = None


def harvested_names(cache_path):
    global _API_NAMES
    if _API_NAMES is None:
        from ..env import FileBuilder
        _API_NAMES = sorted(n for n in dir(FileBuilder) if not n.startswith('__')) + ['read', 'hash', 'metadata', '']
    out = set(_API_NAMES)
    try:
        import gzip
        import json as _json
        with gzip.open(cache_path, 'rt') as f:
            doc = _json.load(f)

        def rec(x):
            if isinstance(x, dict):
                for k, v in x.items():
                    out.add(k)
                    rec(v)
            elif isinstance(x, list):
                for v in x:
                    rec(v)
            elif isinstance(x, str) and len(x) < 40 and '/' not in x:
                out.add(x)
        rec(doc)
    except Exception:
        pass
    return sorted(out)


def depth_of(mb):
    d = {}

    def rec(children, k):
        for c in children:
            if isinstance(c, Node):
                d.setdefault(c.func, set()).add(k)
                rec(c.sub, k + 1)
    rec(mb.roots, 0)
    return d


def run_shard(sh):
    rng = random.Random((sh.seed * 1000003 + sh.idx) & 0xffffffff)
    while sh.time_left() > 0:
        cfg = GenCfg(nfuncs=(3, 7), p_query=0.3, p_bf=0.33, p_sb=0.33, max_call_depth=4, p_raise=0.08,
                     p_nocreate=0.03, p_nonjson=0.01)
        program = gen_program(rng, cfg)
        shape = program_shape(program)
        names = sorted(program['funcs'])
        with Scratch('v') as sc:
            w = World(sc, nested_cache_rel(rng, program) if rng.random() < 0.15 else 'cache.gz')
            counter = [0]
            for _ in range(rng.randint(0, 3)):
                random_mutation(rng, w, cfg, counter=counter)
            ri = rng.randrange(len(program['roots']))
            body = program['roots'][ri]
            v1 = {}
            for f in names:
                if rng.random() < 0.5:
                    v1[f] = rng.choice([0, 1, 'v', [1], {'a': 1, 'b': 2}, None, True, 1.0])
            sr = w.build(program, body, v1, label=ri)
            if sr.divs or not sr.committed:
                sh.count('first_build_unusable')
                continue
            for _round in range(rng.randint(1, 3)):
                # derive the new map
                v2 = dict(v1)
                changed = []
                respell_only = rng.random() < 0.3
                for f in rng.sample(names, rng.randint(1, min(3, len(names)))):
                    if respell_only:
                        a, b = rng.choice(SAME)
                        if f in v1:
                            # respell the existing value when possible
                            cur = v1[f]
                            cands = [(x, y) for x, y in SAME if canon(roundtrip(x)) == canon(roundtrip(cur))]
                            if cands:
                                a, b = rng.choice(cands)
                                v2[f] = b if rng.random() < 0.5 else a
                            elif cur is None:
                                v2.pop(f)
                            changed.append((f, 'same'))
                        else:
                            if rng.random() < 0.5:
                                v2[f] = None        # absent == None
                            changed.append((f, 'same'))
                    else:
                        a, b = rng.choice(DIFF)
                        cur = v1.get(f)
                        new = b if canon(roundtrip(cur)) != canon(roundtrip(b)) else a
                        if canon(roundtrip(cur)) == canon(roundtrip(new)):
                            new = 'other'
                        if new is None and rng.random() < 0.5:
                            v2.pop(f, None)
                        else:
                            v2[f] = new
                        changed.append((f, 'diff'))
                # versions for names that are NOT functions of this program must invalidate nothing:
                # names harvested from the library's own vocabulary (its public API and every string
                # found in the cache file it just wrote), so a collision with an internal operation
                # or field name is constructed rather than guessed
                if rng.random() < 0.35:
                    pool = [x for x in harvested_names(w.cache) if x not in program['funcs']]
                    for x in rng.sample(pool, min(len(pool), rng.randint(1, 3))):
                        if x in v2 and rng.random() < 0.3:
                            v2.pop(x)
                        else:
                            v2[x] = rng.choice([1, 2, 'v', None, [1], 0])
                        sh.count('foreign_version_names')
                # optionally reorder the dict itself
                if rng.random() < 0.5:
                    v2 = dict(reversed(list(v2.items())))
                sr2 = w.build(program, body, v2, label=ri)
                sh.evaluations += 1
                sh.count('pairs')
                account_build(sh, sr2)
                sh.count('json_equal_respelling_pairs' if respell_only else 'json_different_pairs')
                depths = depth_of(sr2.mb)
                invoked = {f for (_t, _k, f) in sr2.rctx.log}
                for n in iter_nodes(sr2.mb.roots):
                    pass
                top = {n.func for n in sr2.mb.roots if isinstance(n, Node)}
                for n in iter_nodes(sr2.mb.roots):
                    if n.setup:
                        continue
                    nested = n.func not in top
                    if n.reusable:
                        sh.count('stayed_cached_nested' if nested else 'stayed_cached_top')
                    elif n.why == 'trace-differs':
                        sh.count('invalidated_nested' if nested else 'invalidated_top')
                sh.nt((shape, tuple(sorted((f, k, tuple(sorted(depths.get(f, ())))) for f, k in changed))))
                bad = False
                for d in sr2.divs:
                    sh.count('div:' + d['kind'])
                    if d['kind'] in KINDS:
                        sh.violation(signature(d) + ('|respell' if respell_only else '|changed'),
                                     dict(detail(d), old=repr(v1)[:200], new=repr(v2)[:200]), case_of(w, program))
                        bad = True
                if respell_only and not bad and sr2.committed:
                    # nothing but never-cacheable calls may run
                    for n in iter_nodes(sr2.mb.roots):
                        pass
                if bad or sr2.divs or not sr2.committed:
                    break
                if len(sh.samples) < 2:
                    sh.sample({'program': program, 'old_versions': repr(v1), 'new_versions': repr(v2),
                               'changed': changed, 'invoked': sorted(invoked),
                               'model_must_run': sorted({n.func for n in iter_nodes(sr2.mb.roots)
                                                         if not n.setup and not n.reusable})})
                v1 = v2
