"""C08 at most one execution per output file and per subbuild key in a build."""
import random

from .common import run_histories, signature, detail, case_of, account_build
from ..env import Scratch, FileBuilder
from ..world import World
from ..gen import GenCfg
from .. import sched, env

CONFIG = {
    'level': 'exploration',
    'budget': {'quick': 45, 'thorough': 900},
    'rule': ('(a) sequential: directed templates for every placement of a duplicate build_file / subbuild (same level, '
             'nested in another function, inside a cached subtree that is reused wholesale, first occurrence cached / '
             'rebuilt / failed / setup-failed, JSON-equal but not identical arguments) and random programs with a '
             'small name universe (duplicates arise constantly): invocation count per key <= 1, the duplicate raises '
             'RuntimeError, the first call\'s output (bytes, mtime, inode peeked right before and after the duplicate) '
             'and return value are untouched, result/tree equal the reference model, and in later builds callers that '
             'caught a rejection are re-executed (never served from the cache); (b) two (or three) threads issue the same key '
             'under the baton scheduler (all single pre-emptions at lock/file-system operations, sampled source-line '
             'pre-emptions, pairs, PCT, random): exactly one invocation, the loser gets RuntimeError, output, return '
             'value and record are the winner\'s; evaluations = builds/schedules judged; distinct_nontrivial = distinct '
             '(template, variant) + distinct switch sequences with a pre-emption inside the library'),
    'gates': ['asym_schedules', 'template_runs', 'dup_rejected', 'peeks_compared', 'thread_dup_schedules', 'thread_dup_single',
              'builds_committed', 'later_builds'],
}

KINDS = {'result', 'tree', 'invoked_twice', 'issue', 'query', 'tmp_leftover', 'foreign_event', 'foreign_changed',
         'rollback_tree'}
LATER = {'result', 'tree', 'extra_invocation', 'invoked_twice', 'reused_output_rewritten'}


def judge(sh, w, program, sr, tag, kinds=KINDS, later=False):
    bad = False
    for d in sr.divs:
        sh.count('div:' + d['kind'])
        if d['kind'] in kinds or (d['kind'] == 'missing_invocation' and d.get('why') == 'setup-failed-inside'):
            sh.violation(signature(d) + '|' + tag, detail(d), case_of(w, program))
            bad = True
    # at most one execution per key in this build
    seen = {}
    for (_t, k, f) in sr.rctx.log:
        seen[k] = seen.get(k, 0) + 1
    for k, n in seen.items():
        if n > 1:
            sh.violation('function_invoked_%d_times_for_one_key|%s' % (min(n, 3), tag), {'key': repr(k)[:100]},
                         case_of(w, program))
            bad = True
    # peeks: the first call's output is untouched by the duplicate attempt
    pk = getattr(sr.rctx, 'peek_log', [])
    by = {}
    for r, label, val in pk:
        by.setdefault(r, []).append((label, val))
    for r, lst in by.items():
        for (l1, v1), (l2, v2) in zip(lst, lst[1:]):
            sh.count('peeks_compared')
            if v1 != v2:
                what = 'bytes' if v1[0] != v2[0] else 'mtime' if v1[1] != v2[1] else 'inode'
                sh.violation('first_output_disturbed_by_duplicate|%s|%s' % (what, tag),
                             {'path': r, 'before': repr(v1)[:80], 'after': repr(v2)[:80]}, case_of(w, program))
                bad = True
    return bad


# ------------------------------------------------------------------ sequential templates
def templates():
    F = {'kind': 'bf', 'idx': 5, 'body': [['q', 'read_text', 'in0', 'M'], ['write', '']]}
    Ffail = {'kind': 'bf', 'idx': 6, 'body': [['write', ''], ['raise', 'Ffail']]}
    G = {'kind': 'bf', 'idx': 7, 'body': [['write', 'other']]}
    S = {'kind': 'sb', 'idx': 8, 'body': [['q', 'read_text', 'in0', 'M']]}
    out = []
    for first in ('F', 'Ffail'):
        for second in ('F', 'G'):
            # same level
            out.append(('bf-same-level-%s-%s' % (first, second),
                        {'funcs': {'F': F, 'Ffail': Ffail, 'G': G},
                         'roots': [[['bf', 'd/o', first, {'catch': True, 'keep': 'v1'}], ['x', 'peek', 'd/o', 'before'],
                                    ['bf', 'd/o', second, {'catch': True}], ['x', 'peek', 'd/o', 'after'],
                                    ['q', 'read_binary', 'd/o', 'H']]]}))
            # nested: the duplicate is attempted from inside another function
            out.append(('bf-nested-%s-%s' % (first, second),
                        {'funcs': {'F': F, 'Ffail': Ffail, 'G': G,
                                   'P': {'kind': 'sb', 'idx': 1, 'body': [['bf', 'd/o', second, {'catch': True}],
                                                                          ['q', 'is_file', 'd/o', 'M']]}},
                         'roots': [[['bf', 'd/o', first, {'catch': True}], ['x', 'peek', 'd/o', 'before'],
                                    ['sb', 'P', {'catch': True}], ['x', 'peek', 'd/o', 'after']]]}))
            # the first occurrence is inside a function, the duplicate at top level
            out.append(('bf-first-nested-%s-%s' % (first, second),
                        {'funcs': {'F': F, 'Ffail': Ffail, 'G': G,
                                   'P': {'kind': 'sb', 'idx': 1, 'body': [['bf', 'd/o', first, {'catch': True}]]}},
                         'roots': [[['sb', 'P', {'catch': True}], ['x', 'peek', 'd/o', 'before'],
                                    ['bf', 'd/o', second, {'catch': True}], ['x', 'peek', 'd/o', 'after']]]}))
    # duplicate inside a cached subtree that is reused wholesale: build 1 runs P (contains bf d/o); build 2's root
    # first builds d/o directly and then calls P (cached) -> the whole subtree must be refused
    out.append(('bf-dup-inside-reused-subtree',
                {'funcs': {'F': F, 'G': G, 'P': {'kind': 'sb', 'idx': 1, 'body': [
                    ['bf', 'd/o', 'F', {'catch': True}], ['bf', 'd/o2', 'F', {'catch': True}]]}},
                 'roots': [[['sb', 'P', {'catch': True}]],
                           [['bf', 'd/o', 'F', {'catch': True}], ['x', 'peek', 'd/o', 'before'],
                            ['sb', 'P', {'catch': True}], ['x', 'peek', 'd/o', 'after'],
                            ['q', 'is_file', 'd/o2', 'M']],
                           [['sb', 'P', {'catch': True}]]]}))
    for args2 in ([1.0], [1], [True], [[1]], [(1,)]):
        out.append(('sb-same-level-args-%r' % (args2,),
                    {'funcs': {'S': S},
                     'roots': [[['sb', 'S', {'catch': True, 'args': [1]}],
                                ['sb', 'S', {'catch': True, 'args': list(args2)}]]]}))
    out.append(('sb-dup-kwargs-order',
                {'funcs': {'S': S},
                 'roots': [[['sb', 'S', {'catch': True, 'kwargs': {'a': 1, 'b': 2}}],
                            ['sb', 'S', {'catch': True, 'kwargs': {'b': 2, 'a': 1.0}}]]]}))
    # keys that tie under the usual normalisations (case, NFC/NFD, padding, numeric spelling), every pair,
    # both insertion orders, as keyword arguments and inside a positional dict
    import itertools as _it
    import unicodedata as _ud
    pool = ['a', 'A', _ud.normalize('NFC', 'é'), _ud.normalize('NFD', 'é'), '1', '01', '', ' ']
    for k1, k2 in _it.combinations(pool, 2):
        out.append(('sb-dup-kwargs-order-%r-%r' % (k1, k2),
                    {'funcs': {'S': S},
                     'roots': [[['sb', 'S', {'catch': True, 'kwargs': {k1: 1, k2: 2}}],
                                ['sb', 'S', {'catch': True, 'kwargs': {k2: 2, k1: 1}}],
                                ['sb', 'S', {'catch': True, 'args': [{k1: 1, k2: [2]}]}],
                                ['sb', 'S', {'catch': True, 'args': [{k2: [2], k1: 1}]}]]]}))
    out.append(('sb-dup-inside-reused-subtree',
                {'funcs': {'S': S, 'P': {'kind': 'sb', 'idx': 1, 'body': [['sb', 'S', {'catch': True, 'args': [1]}],
                                                                          ['q', 'exists', 'in0', 'M']]}},
                 'roots': [[['sb', 'P', {'catch': True}]],
                           [['sb', 'S', {'catch': True, 'args': [1]}], ['sb', 'P', {'catch': True}]],
                           [['sb', 'P', {'catch': True}]]]}))
    out.append(('sb-nested-self',
                {'funcs': {'S': {'kind': 'sb', 'idx': 1, 'body': [['sb', 'S', {'catch': True}]]}},
                 'roots': [[['sb', 'S', {'catch': True}]]]}))
    return out


def run_template(sh, name, program, rng):
    with Scratch('d') as sc:
        w = World(sc)
        w.ext_write('in0', b'input zero')
        nroots = len(program['roots'])
        order = list(range(nroots))
        # build sequences: each root twice, then permutations (conditions of later builds differ)
        seq = []
        for r in order:
            seq += [r, r]
        seq += [rng.randrange(nroots) for _ in range(3)]
        for i, r in enumerate(seq):
            if i and rng.random() < 0.2:
                w.ext_write('in0', ('input %d' % i).encode())
            sr = w.build(program, program['roots'][r], {}, label=r)
            sh.evaluations += 1
            sh.count('template_runs')
            if i:
                sh.count('later_builds')
            account_build(sh, sr)
            for (t, k, exc) in [(p[0], p[1], p[2]) for p in sr.rctx.peeks]:
                pass
            if any(isinstance(e, RuntimeError) for lst in sr.rctx.outcomes.values() for e in lst):
                sh.count('dup_rejected')
            sh.nt(('tpl', name, r, i > 0))
            if judge(sh, w, program, sr, 'tpl:' + name.split('-args-')[0], KINDS | (LATER if i else set())) or sr.divs:
                return


# ------------------------------------------------------------------ threads
def thread_scenarios(rng):
    F = {'kind': 'bf', 'idx': 5, 'body': [['q', 'read_text', 'in0', 'M'], ['write', '']]}
    Fslow = {'kind': 'bf', 'idx': 5, 'body': [['q', 'read_text', 'in0', 'M'], ['q', 'is_file', 'in0', 'M'],
                                              ['write', ''], ['q', 'exists', 'in0', 'M']]}
    S = {'kind': 'sb', 'idx': 8, 'body': [['q', 'read_text', 'in0', 'M'], ['q', 'is_file', 'in0', 'M']]}
    other = ['bf', 'e/x', 'F', {'catch': True, 'args': [9]}]
    out = [
        ('thr-bf-same-target', {'funcs': {'F': F}, 'roots': [[
            ['par', [[['bf', 'd/o', 'F', {'catch': True}]], [['bf', 'd/o', 'F', {'catch': True}]]], {'sym': True}],
            ['q', 'read_binary', 'd/o', 'H'], ['q', 'walk', '', 'M']]]}, True),
        ('thr-bf-same-target-slow', {'funcs': {'F': Fslow}, 'roots': [[
            ['par', [[['bf', 'd/e/o', 'F', {'catch': True}]], [['bf', 'd/e/o', 'F', {'catch': True}]]], {'sym': True}],
            ['q', 'read_binary', 'd/e/o', 'H'], ['q', 'walk', '', 'M']]]}, True),
        ('thr-sb-same-key', {'funcs': {'S': S}, 'roots': [[
            ['par', [[['sb', 'S', {'catch': True, 'args': [1]}]], [['sb', 'S', {'catch': True, 'args': [1.0]}]]],
             {'sym': True}]]]}, True),
        ('thr-bf-3-threads', {'funcs': {'F': F}, 'roots': [[
            ['par', [[['bf', 'd/o', 'F', {'catch': True}]], [['bf', 'd/o', 'F', {'catch': True}]],
                     [['bf', 'd/o', 'F', {'catch': True}]]], {'sym': True}],
            ['q', 'read_binary', 'd/o', 'H']]]}, True),
    ]
    return out


def run_thread_scenario(sh, name, program, next_ok, rng):
    sched.install()
    for prior in ('none', 'same', 'foreign-at-target'):
        with Scratch('e') as sc:
            w = World(sc)
            w.ext_write('in0', b'input zero')
            tgt = [s for s in program['roots'][0][0][1][0] if s[0] == 'bf']
            if prior == 'same':
                sr = w.build(program, program['roots'][0], {}, label=0, threads=False)
                if sr.divs:
                    continue
                if rng.random() < 0.5:
                    w.ext_write('in0', b'changed input')      # first occurrence rebuilt instead of cached
            elif prior == 'foreign-at-target':
                if not tgt:
                    continue
                w.ext_write(tgt[0][1], b'foreign file at the target')
            tok = w.save()
            try:
                def run(strategy, tag):
                    w.restore(tok, keep=True)
                    s = sched.Scheduler(strategy)
                    opts = {'schedule': {k: (v if k != 'at' else {str(a): b for a, b in v.items()})
                                         for k, v in strategy.items()}}
                    sr = w.build(program, program['roots'][0], {}, label=0,
                                 hooks={'spawn': s.spawn, 'fs_yield': s.fs_yield}, step_opts=opts)
                    sh.evaluations += 1
                    sh.count('thread_dup_schedules')
                    account_build(sh, sr)
                    if s.timed_out:
                        sh.inconclusive.append('scheduler watchdog fired in ' + name)
                        return s, False
                    if s.deadlock:
                        sh.violation('deadlock|' + name, {'info': s.deadlock_info}, case_of(w, program))
                        return s, False
                    if s.inside_lib_preemptions:
                        sh.nt((name, prior, s.signature()))
                    n_rej = sum(1 for lst in sr.rctx.outcomes.values() for e in lst if isinstance(e, RuntimeError))
                    if n_rej:
                        sh.count('dup_rejected', n_rej)
                    if judge(sh, w, program, sr, 'thr:' + name + '|' + tag) or sr.divs:
                        return s, False
                    if next_ok and rng.random() < 0.4:
                        if rng.random() < 0.5:
                            # the first call's record must be intact: its recorded reads still decide
                            # whether the next build re-executes it
                            w.ext_write('in0', b'changed after the racing build')
                            sh.count('later_builds_after_input_change')
                        sr2 = w.build(program, program['roots'][0], {}, label=0, threads=False)
                        sh.count('later_builds')
                        judge(sh, w, program, sr2, 'thr-next:' + name, KINDS | LATER)
                    return s, True
                s0, ok = run({'kind': 'none', 'grain': 'ops'}, 'baseline')
                if not ok:
                    continue
                T = len(program['roots'][0][0][1])
                n_ops = s0.step
                for first in range(T):
                    for k in range(1, n_ops + 1):
                        for t in range(T - 1):
                            if sh.time_left() <= 0:
                                return
                            run({'kind': 'preempt', 'at': {k: t}, 'first': first, 'grain': 'ops'}, 'single')
                            sh.count('thread_dup_single')
                s1, ok = run({'kind': 'none', 'grain': 'lines'}, 'baseline-lines')
                n = s1.step
                # all single pre-emptions at source-line granularity, too: the window between the
                # validity check and the claim is a few lines wide
                ks = list(range(1, n + 1))
                if sh.tier == 'quick' and len(ks) > 250:
                    ks = sorted(rng.sample(ks, 250))
                for k in ks:
                    if sh.time_left() <= 0:
                        return
                    run({'kind': 'preempt', 'at': {k: rng.randrange(T)}, 'first': rng.randrange(T)}, 'single-line')
                    sh.count('thread_dup_lines')
                for _ in range(40 if sh.tier == 'quick' else 1500):
                    if sh.time_left() <= 0:
                        return
                    k1, k2 = sorted(rng.sample(range(1, n + 2), 2))
                    run({'kind': 'preempt', 'at': {k1: rng.randrange(T), k2: rng.randrange(T)},
                         'first': rng.randrange(T)}, 'pair')
                for _ in range(20 if sh.tier == 'quick' else 400):
                    if sh.time_left() <= 0:
                        return
                    run({'kind': rng.choice(['pct', 'random']), 'd': rng.randint(1, 3), 'n': n, 'p': 0.03,
                         'seed': rng.randrange(10 ** 9)}, 'rand')
            finally:
                w.discard(tok)


def run_asym_scenarios(sh, rng):
    """races whose two sequential orders have DIFFERENT outcomes (one thread reuses a cached subtree that
    contains a record for the path/key the other thread calls directly; the nested record succeeded or
    failed): no model order is imposed; judged by what every order shares - no deadlock, at most one
    execution per key in the build, every call either returned or raised RuntimeError, and after the build
    a clean leaves exactly the files that were there before any build (so every output that exists is in
    the committed record) - plus an unchanged sequential rebuild that must not fail."""
    import os
    sched.install()
    G = {'kind': 'bf', 'idx': 5, 'body': [['q', 'read_text', 'in0', 'M'], ['write', 'g']]}
    Fbad = {'kind': 'bf', 'idx': 6, 'body': [['write', 'bad'], ['raise', 'Fbad']]}
    Sk = {'kind': 'sb', 'idx': 7, 'body': [['q', 'read_text', 'in0', 'M']]}
    Sbad = {'kind': 'sb', 'idx': 8, 'body': [['q', 'read_text', 'in0', 'M'], ['raise', 'Sbad']]}
    scen = []
    for nested_ok in (True, False):
        Pbf = {'kind': 'sb', 'idx': 1, 'body': [['bf', 'd/o', 'G' if nested_ok else 'Fbad', {'catch': True}],
                                                ['q', 'exists', 'in0', 'M']]}
        scen.append(('asym-bf-%s' % ('ok' if nested_ok else 'failed'),
                     {'funcs': {'P': Pbf, 'G': G, 'Fbad': Fbad},
                      'roots': [[['sb', 'P', {'catch': True}]],
                                [['par', [[['sb', 'P', {'catch': True}]], [['bf', 'd/o', 'G', {'catch': True}]]]],
                                 ['q', 'exists', 'in0', 'M']]]}))
        Psb = {'kind': 'sb', 'idx': 1, 'body': [['sb', 'Sk' if nested_ok else 'Sbad', {'catch': True, 'args': [1]}],
                                                ['q', 'exists', 'in0', 'M']]}
        scen.append(('asym-sb-%s' % ('ok' if nested_ok else 'failed'),
                     {'funcs': {'P': Psb, 'Sk': Sk, 'Sbad': Sbad},
                      'roots': [[['sb', 'P', {'catch': True}]],
                                [['par', [[['sb', 'P', {'catch': True}]],
                                          [['sb', 'Sk' if nested_ok else 'Sbad', {'catch': True, 'args': [1.0]}]]]],
                                 ['q', 'exists', 'in0', 'M']]]}))
    name, program = scen[(sh.idx // 2) % len(scen)]
    with Scratch('a') as sc:
        w = World(sc)
        w.ext_write('in0', b'input zero')
        w.ext_write('keep/foreign', b'foreign')
        before = {p: v[:2] for p, v in env.snapshot(w.sb).items()}
        sr0 = w.build(program, program['roots'][0], {}, label=0, threads=False)
        if sr0.divs:
            return
        tok = w.save()
        try:
            def run(strategy):
                w.restore(tok, keep=True)
                s = sched.Scheduler(strategy)
                sr = w.build(program, program['roots'][1], {}, label=1, compare=False, run_model=False,
                             hooks={'spawn': s.spawn, 'fs_yield': s.fs_yield})
                sh.evaluations += 1
                sh.count('asym_schedules')
                case = case_of(w, program)
                if s.timed_out:
                    sh.inconclusive.append('scheduler watchdog fired in ' + name)
                    return s
                if s.deadlock:
                    sh.violation('deadlock|' + name, {'info': s.deadlock_info}, case)
                    return s
                if getattr(s, 'double_lock', None):
                    sh.violation('lock_created_twice_for_one_object|%s' % s.double_lock['class'], dict(s.double_lock), case)
                    return s
                if s.inside_lib_preemptions:
                    sh.nt((name, s.signature()))
                keys = [k for (_t, k, _f) in sr.rctx.log]
                if len(keys) != len(set(keys)):
                    sh.violation('invoked_twice|' + name, {'keys': [str(k)[:60] for k in keys]}, case)
                    return s
                odd = [e for lst in sr.rctx.outcomes.values() for e in lst
                       if e is not None and not isinstance(e, RuntimeError) and type(e).__name__ not in ('UserBoom',)]
                if sr.rres[0] != 'ok' or odd:
                    sh.violation('asym_race_spurious_exception|' + name,
                                 {'result': sr.rres[:2], 'odd': [type(e).__name__ for e in odd][:3]}, case)
                    return s
                # an unchanged sequential rebuild must work, and clean must leave the initial tree
                try:
                    FileBuilder.build_versioned(w.cache, w.build_name, {},
                                                lambda b: None)
                except Exception as e:  # noqa
                    sh.violation('build_after_asym_race_fails|%s|%s' % (name, type(e).__name__), {}, case)
                    return s
                w.restore(tok, keep=True)
                sr = w.build(program, program['roots'][1], {}, label=1, compare=False, run_model=False,
                             hooks={'spawn': sched.Scheduler(strategy).spawn})
                FileBuilder.clean(w.cache, w.build_name)
                after = {p: v[:2] for p, v in env.snapshot(w.sb).items()}
                if after != before:
                    extra = sorted(env.rel(w.sb, p) for p in after if p not in before)
                    missing = sorted(env.rel(w.sb, p) for p in before if p not in after)
                    sh.violation('clean_after_asym_race_leaves_or_loses|' + name,
                                 {'left_behind': extra[:4], 'lost': missing[:4]}, case)
                return s
            s0 = run({'kind': 'none', 'grain': 'lines'})
            n = s0.step
            ks = list(range(1, n + 1))
            if sh.tier == 'quick' and len(ks) > 120:
                ks = sorted(rng.sample(ks, 120))
            for k in ks:
                if sh.time_left() <= 0:
                    return
                run({'kind': 'preempt', 'at': {k: 0}, 'first': rng.randrange(2)})
            for _ in range(30 if sh.tier == 'quick' else 800):
                if sh.time_left() <= 0:
                    return
                k1, k2 = sorted(rng.sample(range(1, n + 2), 2))
                run({'kind': 'preempt', 'at': {k1: 0, k2: 0}, 'first': rng.randrange(2)})
        finally:
            w.discard(tok)


def run_shard(sh):
    rng = random.Random((sh.seed * 1000003 + sh.idx) & 0xffffffff)
    if sh.idx % 2 == 1:
        run_asym_scenarios(sh, rng)
    tpls = templates()
    # (a1) templates: every shard runs a slice, several times with different input changes
    for name, program in tpls[sh.idx % 4::4]:
        run_template(sh, name, program, rng)
    if len(sh.samples) < 1:
        sh.sample({'template': tpls[0][0], 'program': tpls[0][1]})
    # (b) threads: scenarios are distributed over the shards
    scen = thread_scenarios(rng)
    t_threads = sh.budget_s * 0.6
    import time
    t0 = time.time()
    i = sh.idx
    while time.time() - t0 < t_threads and sh.time_left() > 0:
        name, program, next_ok = scen[i % len(scen)]
        run_thread_scenario(sh, name, program, next_ok, rng)
        i += 1
        if i - sh.idx >= len(scen):
            break
    # (a2) random programs with a tiny universe: duplicates everywhere
    def select(d):
        return d['kind'] in KINDS | LATER or \
            (d['kind'] == 'missing_invocation' and d.get('why') == 'setup-failed-inside')
    run_histories(sh, select=select, steps_range=(3, 6),
                  make_cfg=lambda r: GenCfg(names=['a', 'b'], maxdepth=2, p_awkward=0.0, p_bf=0.4, p_sb=0.3,
                                            p_query=0.25, p_args=0.5),
                  nested_prob=0.05, fail_prob=0.05, clean_prob=0.03)
