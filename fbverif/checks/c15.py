"""C15 refused calls have no side effects."""
import gzip
import json
import os
import unicodedata
import random

from ..env import Scratch, FileBuilder
from ..world import World
from ..gen import GenCfg, gen_program
from ..hist import random_mutation
from ..monitor import FsMonitor
from .. import env

CONFIG = {
    'level': 'fault_enumeration',
    'budget': {'quick': 30, 'thorough': 480},
    'rule': ('from the valid cache file of a random history (tree with outputs, created directories, foreign files) '
             'every corruption class is applied in turn: truncation at every offset of the gzip header and of the last 24 bytes and at each 10% '
             'of the body and inside the trailer; single bit flips at random offsets; valid gzip of non-JSON / '
             'non-UTF-8 / JSON of wrong shape (list, number, string, null) / wrong software / other cacheFileVersion / '
             'each key missing / wrong-typed fields; plain (non-gzip) JSON; the cache path being a directory; build-name '
             'mismatch; every wrong-typed argument position of build, build_versioned and clean (also with the cache '
             'path in a directory that does not exist yet) - each for build and for clean; oracle: if the call raised '
             'and no user function was entered, the tree incl. the cache file is bit-identical (bytes, mtime_ns, inode), '
             'the library issued no mutating file-system event outside the private temp dir and left nothing in it; '
             'calls the library accepts (e.g. a flipped gzip MTIME byte) are counted, not judged - except truncations, other build names (incl. near misses of the stored name: empty, prefix, case, padding), wrong-typed arguments and a directory at the cache path: accepting those is a violation; an accepted bit flip is checked against a reference reader (the gzip and json modules of the standard library): if that cannot read the file, accepting it is a violation; a sample of the refused corruptions is repeated after the process has just read the valid file (a refused other-name call) with the corrupted file keeping the valid file\'s timestamp: the refusal must not depend on process history; evaluations = refused '
             'calls judged; distinct_nontrivial = distinct (corruption class, API, exception class)'),
    'gates': ['refused', 'refused:build', 'refused:clean', 'class:truncate', 'class:bitflip', 'class:json_shape',
              'class:wrong_type_arg', 'class:name_mismatch', 'class:cache_is_dir', 'accepted', 'primed_attempts',
              'accepted_flips_reference_checked', 'write_primed_flips'],
}


MUST_REFUSE = {'truncate': 'truncated_cache', 'name_mismatch': 'other_build_name',
               'wrong_type_arg': 'wrong_typed_argument', 'cache_is_dir': 'cache_path_is_directory'}


NAMED_SHAPES = {'not-json': 'non_json_cache', 'not-utf8': 'non_json_cache', 'empty': 'non_json_cache',
                'plain-json-no-gzip': 'non_gzip_cache', 'wrong-software': 'other_software_cache',
                'newer-version': 'newer_format_cache'}


class NotCalled(Exception):
    pass


def corruptions(rng, good, tier):
    """yield (class, label, bytes or None)"""
    n = len(good)
    # every cut inside the gzip header and inside the last 24 bytes (trailer + end of the deflate
    # stream), every 10% of the body; thorough: random further cuts
    offs = list(range(0, 11)) + [10 + (n - 18) * i // 10 for i in range(0, 11)] + list(range(n - 24, n))
    if tier != 'quick':
        offs += [rng.randrange(n) for _ in range(40)]
    for o in sorted(set(o for o in offs if 0 <= o < n)):
        yield 'truncate', 'trunc@%d/%d' % (o, n), good[:o]
    for _ in range(20 if tier == 'quick' else 200):
        o = rng.randrange(n)
        b = bytearray(good)
        b[o] ^= 1 << rng.randrange(8)
        yield 'bitflip', 'flip@%s' % ('header' if o < 10 else 'trailer' if o >= n - 8 else 'body'), bytes(b)
    try:
        doc = json.loads(gzip.decompress(good).decode())
    except Exception:
        doc = None

    def gz(text):
        return gzip.compress(text if isinstance(text, bytes) else text.encode())
    yield 'json_shape', 'not-json', gz('this is not json {')
    yield 'json_shape', 'not-utf8', gz(b'\xff\xfe\x00{"a":1}')
    yield 'json_shape', 'empty', gz('')
    for lit in ('[]', '1', '"x"', 'null', 'true', '{}'):
        yield 'json_shape', 'json:' + lit, gz(lit)
    yield 'json_shape', 'plain-json-no-gzip', json.dumps(doc).encode() if doc else b'{}'
    if doc:
        d = dict(doc)
        d['software'] = 'other_tool'
        yield 'json_shape', 'wrong-software', gz(json.dumps(d))
        d = dict(doc)
        d['cacheFileVersion'] = 2
        yield 'json_shape', 'newer-version', gz(json.dumps(d))
        for k in list(doc):
            d = dict(doc)
            del d[k]
            yield 'json_shape', 'missing:' + k, gz(json.dumps(d))
        for k, v in (('rootOperations', {}), ('rootOperations', None), ('rootOperations', 'x'),
                     ('rootOperations', [1]), ('rootOperations', [{}]), ('rootOperations', [{'type': 'build_file'}]),
                     ('createdDirs', 5), ('createdDirs', None), ('funcVersions', []), ('funcVersions', None),
                     ('operationVersions', 3), ('buildName', 5), ('buildName', None)):
            d = dict(doc)
            d[k] = v
            yield 'json_shape', 'wrong-type:%s=%s' % (k, json.dumps(v)), gz(json.dumps(d))


def label_cut(label):
    try:
        o, n = label.split('@')[1].split('/')
        return int(n) - int(o)
    except Exception:
        return None


def snapshot_all(w):
    return env.snapshot(w.sb), sorted(os.listdir(w.tmp))


def attempt(sh, w, cls, label, api, call, program, data=None):
    """run one possibly-refused call under the monitors and judge it"""
    entered = []

    def root(b, *a, **k):
        entered.append(1)
        raise NotCalled()
    pre, tmp_pre = snapshot_all(w)
    mon = FsMonitor(w.sb, w.tmp)
    exc = None
    with mon:
        mon.set_phase('refused?')
        try:
            call(root)
        except BaseException as e:  # noqa
            exc = e
    post, tmp_post = snapshot_all(w)
    if entered or exc is None:
        sh.count('accepted')
        sh.count('accepted:' + cls)
        if cls == 'json_shape':
            base = label.split('=')[0].split('|')[0]
            sh.count('accepted_shape:' + base)
            if base in NAMED_SHAPES:
                # refusal reasons the property names: not JSON, written by other software, a newer format
                sh.evaluations += 1
                sh.violation('%s_not_refused|%s' % (NAMED_SHAPES[base], api),
                             {'label': label, 'entered': bool(entered)},
                             {'kind': 'c15', 'class': cls, 'label': label, 'api': api, 'program': program,
                              'steps': list(w.steps), 'cache_rel': w.cache_rel})
                return 'violation'
        if cls in MUST_REFUSE:
            # classes the property names as refusal reasons (a proper prefix of a valid cache file is
            # "truncated", a different build name, a wrong-typed argument, a directory at the cache path):
            # accepting the call is the violation
            sh.evaluations += 1
            sh.violation('%s_not_refused|%s|%s' % (MUST_REFUSE[cls], api, 'function_called' if entered else 'returned'),
                         {'label': label, 'cut_from_end': label_cut(label)},
                         {'kind': 'c15', 'class': cls, 'label': label, 'api': api, 'program': program,
                          'steps': list(w.steps), 'cache_rel': w.cache_rel})
            return 'violation'
        if data is not None and cls == 'bitflip':
            # reference reader: a file that Python's own gzip module cannot decompress (bad magic, damaged
            # deflate stream, CRC or length mismatch) or whose text is not JSON is "unreadable / not gzip /
            # not JSON": accepting it is the violation.  (A flip the reference reader does not notice -
            # e.g. in the gzip MTIME field - is legitimately accepted.)
            try:
                json.loads(gzip.decompress(data).decode('utf-8'))
                readable = True
            except Exception:
                readable = False
            sh.count('accepted_flips_reference_checked')
            if not readable:
                sh.evaluations += 1
                sh.violation('unreadable_cache_not_refused|%s|%s' % (api, label.split('|')[0]),
                             {'label': label, 'entered': bool(entered)},
                             {'kind': 'c15', 'class': cls, 'label': label, 'api': api, 'program': program,
                              'steps': list(w.steps), 'cache_rel': w.cache_rel})
                return 'violation'
        return 'accepted'
    sh.evaluations += 1
    sh.count('refused')
    sh.count('refused:' + api)
    sh.count('class:' + cls)
    sh.nt((cls, label.split('@')[0].split('=')[0], api, type(exc).__name__))
    case = {'kind': 'c15', 'class': cls, 'label': label, 'api': api, 'exception': repr(exc)[:200],
            'program': program, 'steps': list(w.steps), 'cache_rel': w.cache_rel}
    if pre != post:
        diffs = []
        for p in sorted(set(pre) | set(post)):
            if pre.get(p) != post.get(p):
                a, b = pre.get(p), post.get(p)
                what = 'created' if a is None else 'deleted' if b is None else \
                    'type' if a[0] != b[0] else 'bytes' if a[1] != b[1] else 'mtime' if a[2] != b[2] else 'inode'
                diffs.append((env.rel(w.sb, p), what, 'cache' if p == w.cache else 'other'))
        sh.violation('refused_call_changed_tree|%s|%s|%s' % (api, cls, diffs[0][1] + ':' + diffs[0][2]),
                     {'diffs': diffs[:5], 'label': label, 'exception': repr(exc)[:120]}, case)
        return 'violation'
    if tmp_pre != tmp_post:
        sh.violation('refused_call_left_temp_dir|%s|%s' % (api, cls),
                     {'left': [n for n in tmp_post if n not in tmp_pre][:3], 'label': label}, case)
        return 'violation'
    muts = [e for e in mon.lib_mutations() if not all((p + '/').startswith(w.tmp + '/') for p in e['paths'])]
    made_tmp = [e for e in mon.events if e['ev'] == 'tempfile.mkdtemp']
    if muts:
        sh.violation('refused_call_mutating_event|%s|%s|%s' % (api, cls, muts[0]['ev']),
                     {'events': [(e['ev'], [env.rel(w.sb, p) for p in e['paths']]) for e in muts[:4]],
                      'label': label}, case)
        return 'violation'
    if made_tmp:
        sh.violation('refused_call_created_temp_dir|%s|%s' % (api, cls), {'label': label}, case)
        return 'violation'
    if len(sh.samples) < 3 and cls != 'wrong_type_arg':
        sh.sample({'class': cls, 'label': label, 'api': api, 'exception': repr(exc)[:120],
                   'tree_entries_compared': len(pre)})
    return 'refused'


def run_shard(sh):
    rng = random.Random((sh.seed * 1000003 + sh.idx) & 0xffffffff)
    while sh.time_left() > 0:
        cfg = GenCfg(p_awkward=0.02)
        program = gen_program(rng, cfg)
        with Scratch('u') as sc:
            nested = rng.random() < 0.3
            w = World(sc, 'k/kk/cache.gz' if nested else 'cache.gz')
            counter = [0]
            ok = True
            for _ in range(rng.randint(1, 3)):
                for _ in range(rng.randint(0, 2)):
                    random_mutation(rng, w, cfg, counter=counter)
                ri = rng.randrange(len(program['roots']))
                sr = w.build(program, program['roots'][ri], {}, label=ri)
                if sr.divs:
                    ok = False
                    break
            if not ok or not os.path.isfile(w.cache):
                sh.count('no_valid_cache')
                continue
            with open(w.cache, 'rb') as f:
                good = f.read()
            good_mtime = os.stat(w.cache).st_mtime_ns
            cache, name = w.cache, w.build_name

            def restore_cache():
                if os.path.isdir(cache) and not os.path.islink(cache):
                    os.rmdir(cache)
                with open(cache, 'wb') as f:
                    f.write(good)
                os.utime(cache, ns=(good_mtime, good_mtime))
            # write-primed flips: the very first call after THIS process has written the cache file sees a
            # corruption that keeps size, timestamp and gzip trailer (whatever the process remembers about
            # the file it wrote must not vouch for the bytes on disk)
            if sr.committed and len(good) > 30:
                for api in ('build', 'clean'):
                    o = rng.randrange(0, len(good) - 8)
                    b = bytearray(good)
                    b[o] ^= 1 << rng.randrange(8)
                    tokp = w.save()
                    with open(cache, 'wb') as f:
                        f.write(bytes(b))
                    os.utime(cache, ns=(good_mtime, good_mtime))
                    sh.count('write_primed_flips')
                    lab = 'flip@%s|write-primed' % ('header' if o < 10 else 'body')
                    if api == 'build':
                        attempt(sh, w, 'bitflip', lab, api, lambda root: FileBuilder.build(cache, name, root),
                                program, bytes(b))
                    else:
                        attempt(sh, w, 'bitflip', lab, api, lambda root: FileBuilder.clean(cache, name), program, bytes(b))
                    w.restore(tokp)
                    if api == 'build':
                        # write the cache again (an unchanged rebuild) so that the second probe is write-primed too
                        sr = w.build(program, program['roots'][ri], {}, label=ri)
                        if sr.divs or not sr.committed:
                            break
                        with open(w.cache, 'rb') as f:
                            good = f.read()
                        good_mtime = os.stat(w.cache).st_mtime_ns
            items = list(corruptions(rng, good, sh.tier))
            rng.shuffle(items)
            if sh.tier == 'quick':
                # every class in every case; bit flips and truncations subsampled
                keep = [it for it in items if it[0] == 'json_shape']
                rest = [it for it in items if it[0] != 'json_shape']
                items = keep + rng.sample(rest, min(len(rest), 28))
            tok = w.save()
            for cls, label, data in items:
                if sh.time_left() <= 0:
                    break
                for api in ('build', 'clean'):
                    with open(cache, 'wb') as f:
                        f.write(data)
                    st = env.CLOCK.next()
                    os.utime(cache, ns=(st, st))
                    if api == 'build':
                        r = attempt(sh, w, cls, label, api, lambda root: FileBuilder.build(cache, name, root), program, data)
                    else:
                        r = attempt(sh, w, cls, label, api, lambda root: FileBuilder.clean(cache, name), program, data)
                    if r != 'refused':
                        # accepted (undefined territory) or violated: continue from a pristine copy
                        w.restore(tok, keep=True)
                    elif rng.random() < 0.3 and len(data) > 0:
                        # history independence: the same bytes must be refused again when the process has
                        # just read the VALID file successfully (a refused other-name call) and the
                        # corruption keeps the file's timestamp (and, for bit flips, its size): a refusal
                        # may not depend on what the process saw before
                        restore_cache()
                        try:
                            FileBuilder.build(cache, name + '-other', lambda b: None)
                        except Exception:
                            pass
                        with open(cache, 'wb') as f:
                            f.write(data)
                        os.utime(cache, ns=(good_mtime, good_mtime))
                        sh.count('primed_attempts')
                        if api == 'build':
                            r2 = attempt(sh, w, cls, label + '|primed', api,
                                         lambda root: FileBuilder.build(cache, name, root), program)
                        else:
                            r2 = attempt(sh, w, cls, label + '|primed', api,
                                         lambda root: FileBuilder.clean(cache, name), program)
                        if r2 == 'accepted':
                            sh.evaluations += 1
                            sh.violation('refusal_depends_on_process_history|%s|%s' % (api, cls),
                                         {'label': label, 'first': r, 'after_priming_read': r2},
                                         {'kind': 'c15', 'class': cls, 'label': label, 'api': api, 'program': program,
                                          'steps': list(w.steps), 'cache_rel': w.cache_rel})
                        if r2 != 'refused':
                            w.restore(tok, keep=True)
            w.restore(tok)
            if True:
                restore_cache()
                # ---- name mismatch
                attempt(sh, w, 'name_mismatch', 'build', 'build',
                        lambda root: FileBuilder.build(cache, name + 'x', root), program)
                attempt(sh, w, 'name_mismatch', 'clean', 'clean',
                        lambda root: FileBuilder.clean(cache, name + 'x'), program)
                attempt(sh, w, 'name_mismatch', 'build_versioned', 'build',
                        lambda root: FileBuilder.build_versioned(cache, '', {}, root), program)
                # near misses of the stored name (empty, prefix, case, padding, NFD look-alike, NUL, '0')
                for other in ('', name[:-1], name.upper(), name + ' ', ' ' + name, name + '\x00', '0',
                              'None', 'null', unicodedata.normalize('NFD', name + 'é')):
                    if other == name:
                        continue
                    attempt(sh, w, 'name_mismatch', 'near:' + repr(other)[:12], 'build',
                            lambda root, o=other: FileBuilder.build(cache, o, root), program)
                    attempt(sh, w, 'name_mismatch', 'near:' + repr(other)[:12], 'build',
                            lambda root, o=other: FileBuilder.build_versioned(cache, o, {}, root), program)
                    attempt(sh, w, 'name_mismatch', 'near:' + repr(other)[:12], 'clean',
                            lambda root, o=other: FileBuilder.clean(cache, o), program)
                # ---- wrong-typed arguments, on the valid cache and on a cache path in a missing directory
                missing = os.path.join(w.sb, 'nodir1', 'nodir2', 'cache.gz')
                for cp in (cache, missing):
                    bad_args = [
                        ('build', lambda root, cp=cp: FileBuilder.build(cp, 5, root)),
                        ('build', lambda root, cp=cp: FileBuilder.build(cp, None, root)),
                        ('build', lambda root, cp=cp: FileBuilder.build(cp, b'n', root)),
                        ('build', lambda root, cp=cp: FileBuilder.build(cp, name, None)),
                        ('build', lambda root, cp=cp: FileBuilder.build(cp, name, 5)),
                        ('build', lambda root: FileBuilder.build(5, name, root)),
                        ('build', lambda root: FileBuilder.build(None, name, root)),
                        ('build', lambda root: FileBuilder.build(object(), name, root)),
                        ('build', lambda root, cp=cp: FileBuilder.build_versioned(cp, name, [], root)),
                        ('build', lambda root, cp=cp: FileBuilder.build_versioned(cp, name, None, root)),
                        ('build', lambda root, cp=cp: FileBuilder.build_versioned(cp, name, {'f': object()}, root)),
                        ('build', lambda root, cp=cp: FileBuilder.build_versioned(cp, name, {'f': {1, 2}}, root)),
                        ('build', lambda root, cp=cp: FileBuilder.build_versioned(cp, 5, {}, root)),
                        ('build', lambda root, cp=cp: FileBuilder.build_versioned(cp, name, {}, 'notcallable')),
                        ('clean', lambda root, cp=cp: FileBuilder.clean(cp, 5)),
                        ('clean', lambda root, cp=cp: FileBuilder.clean(cp, b'n')),
                        ('clean', lambda root: FileBuilder.clean(5, name)),
                        ('clean', lambda root: FileBuilder.clean(None, name)),
                        ('clean', lambda root: FileBuilder.clean(object(), None)),
                    ]
                    for api, call in bad_args:
                        attempt(sh, w, 'wrong_type_arg', 'valid-cache' if cp == cache else 'missing-dir', api,
                                call, program)
                # ---- cache path is a directory
                os.remove(cache)
                os.mkdir(cache)
                attempt(sh, w, 'cache_is_dir', 'empty-dir', 'build',
                        lambda root: FileBuilder.build(cache, name, root), program)
                attempt(sh, w, 'cache_is_dir', 'empty-dir', 'clean',
                        lambda root: FileBuilder.clean(cache, name), program)
                with open(os.path.join(cache, 'inner'), 'w') as f:
                    f.write('x')
                attempt(sh, w, 'cache_is_dir', 'dir-with-content', 'build',
                        lambda root: FileBuilder.build(cache, name, root), program)
                attempt(sh, w, 'cache_is_dir', 'dir-with-content', 'clean',
                        lambda root: FileBuilder.clean(cache, None), program)
        sh.count('cases')
