"""C16 cache persistence is faithful (+ write failure)."""
import os
import random

from .common import run_histories, signature, detail, case_of, account_build, handle_divs
from ..gen import GenCfg
from .. import env, faults
from ..jsonref import type_exact_equal
from ..values import rand_value, ATOMS
from ..model import iter_nodes

CONFIG = {
    'level': 'exploration',
    'budget': {'quick': 35, 'thorough': 600},
    'rule': ('random forests of nested build_file/subbuild calls whose functions return values from the C07 '
             'JSON grammar (None/bool/int incl. >2^53/float incl. -0.0, inf/non-BMP strings/nested lists, dicts) '
             'and write to targets with names from a legal-name grammar (spaces, non-ASCII, leading dots, '
             'quotes, backslash, control characters, 255-byte names, undecodable bytes), including failure '
             'markers and setup-failed records; after every committed build an unchanged rebuild must invoke '
             'nothing unjustified, return type-exactly equal values for every call (served from the cache) and '
             'leave the tree unchanged; clean on a copy must remove exactly the recorded files/directories; '
             'audit-hook events must not touch the cache path before the root function returned; a write fault '
             '(at open / first write / mid write of the cache, via a gzip proxy and the audit hook) must leave '
             'the previous cache bytes (or no cache file) and the next build must not be refused; '
             'evaluations = builds + rebuilds + fault runs judged; distinct_nontrivial = distinct (program '
             'shape, step kinds) with >=1 hit and >=1 miss'),
    'gates': ['write_fault_class:OSError', 'write_fault_class:ValueError', 'builds_committed', 'unchanged_rebuilds', 'values_compared', 'awkward_targets_built',
              'write_fault_runs', 'write_fault_mid', 'clean_on_copy', 'cache_events_checked'],
}

NAMES = [' ', 'a b', ' lead', 'trail ', 'é', '猫', '.h', '..h', '-', '--x', "q'uote", 'dq"', 'back\\slash',
         'tab\there', 'new\nline', 'x' * 255, '\U0001F600', 'é', '%s', '{}', '*', '?', '[a]', 'a:b',
         'a.', '~', '$HOME', '#', ';', '&', '|', '\x7f', '\x01', os.fsdecode(b'\xff\xfe'), 'a', 'b', 'c']

KINDS = {'result', 'tree', 'extra_invocation', 'clean_tree', 'reused_output_rewritten', 'query'}


def select(d):
    return d['kind'] in KINDS


def make_cfg(rng):
    names = rng.sample(NAMES, 4) + ['a', 'b']
    return GenCfg(names=names, p_awkward=0.0, p_query=0.3, p_bf=0.38, p_sb=0.26, p_raise=0.15,
                  query_kinds=['is_file', 'is_dir', 'exists', 'list_dir', 'walk', 'read_text',
                               'read_binary', 'declare_read'])


def decorate(rng, program):
    """give functions return values from the grammar"""
    for f in program['funcs'].values():
        if rng.random() < 0.8 and not any(s[0] == 'ret' for s in f['body']):
            v = rand_value(rng, rng.randint(0, 4), tuples=True, nonstr_keys=True)
            f['body'].append(['ret', ['val', v]])
    return program


def cache_events_ok(sh, w, program, sr):
    sh.count('cache_events_checked')
    for e in sr.mon.events:
        if e['user']:
            continue
        if e['phase'] in ('pre-root', 'root') and w.cache in e['paths'] and \
                e['ev'] in ('open_w', 'os.rename', 'os.remove', 'os.truncate'):
            sh.violation('cache_file_touched_before_root_returned|%s|%s' % (e['ev'], e['phase']),
                         {'event': e['ev'], 'phase': e['phase']}, case_of(w, program))
            return False
    return True


def after_build(sh, w, program, sr, ctx):
    rng = ctx['rng']
    cache_events_ok(sh, w, program, sr)
    if not sr.committed:
        return False
    for n in iter_nodes(sr.mb.roots):
        if n.t == 'bf' and not n.raised and any(ord(c) > 127 or c in ' \'"\\\t\n*?[]{}%$#;&|~:' or c < ' '
                                                  for c in env.rel(w.sb, n.path)):
            sh.count('awkward_targets_built')
    body, vers, label = ctx['body'], ctx['vers'], ctx['label']
    tok = w.save()
    try:
        r = rng.random()
        if r < 0.5:
            sr2 = w.build(program, body, vers, label=label)
            sh.evaluations += 1
            sh.count('unchanged_rebuilds')
            account_build(sh, sr2)
            if handle_divs(sh, w, program, sr2, select):
                return False
            cache_events_ok(sh, w, program, sr2)
            # every value served in build N+1 equals the value returned in build N, type-exactly
            first = {}
            for t, k, v in sr.rctx.rets:
                first[(t, k)] = v
            invoked2 = {(k[0], k[1]) for (_t, k, _f) in sr2.rctx.log}
            for t, k, v in sr2.rctx.rets:
                if (t, k) in first and (t, k) not in invoked2:
                    sh.count('values_compared')
                    if not type_exact_equal(v, first[(t, k)]):
                        sh.violation('cached_value_differs_from_returned_value',
                                     {'returned': repr(first[(t, k)])[:150], 'served': repr(v)[:150]},
                                     case_of(w, program))
                        return False
        elif r < 0.75:
            c1 = w.clean()
            sh.evaluations += 1
            sh.count('clean_on_copy')
            for d in c1.divs:
                if d['kind'] in ('clean_tree', 'clean_result'):
                    sh.violation(signature(d), detail(d), case_of(w, program))
        else:
            write_fault_probe(sh, w, program, sr, ctx)
    finally:
        w.restore(tok)
    return False


def write_fault_probe(sh, w, program, sr, ctx):
    rng = ctx['rng']
    body, vers, label = ctx['body'], ctx['vers'], ctx['label']
    proxy = faults.install_gzip_proxy()
    mode = rng.choice(['open', 'first_write', 'mid_write'])
    if proxy is None:
        sh.count('gzip_proxy_unavailable')
        return
    # sometimes start from "no previous cache"
    no_prev = rng.random() < 0.4
    if no_prev:
        if not w.ext_delete_cache():
            no_prev = False
    # make sure something changes so that a new cache has to be written anyway
    pre_cache = None
    if os.path.isfile(w.cache):
        with open(w.cache, 'rb') as f:
            pre_cache = (f.read(), os.stat(w.cache).st_mtime_ns)
    code = rng.choice(['ENOSPC', 'EIO', 'EDQUOT', 'ValueError', 'RuntimeError', 'UnicodeEncodeError',
                       'RecursionError', 'MemoryError'])
    plan = faults.make_plan(mode, code)
    sh.count('write_fault_class:' + ('OSError' if code.startswith('E') else code))
    proxy.plan = plan
    try:
        sr2 = w.build(program, body, vers, label=label, run_model=False,
                      step_opts={'write_fault': mode})
    finally:
        proxy.plan = None
    sh.evaluations += 1
    sh.count('write_fault_runs')
    if not plan['fired']:
        sh.count('write_fault_not_reached')
        return
    sh.count('write_fault_' + mode.split('_')[0])
    case = case_of(w, program)
    if sr2.rres[0] != 'exc' or sr2.exc_obj is not plan['exc']:
        sh.violation('cache_write_fault_swallowed|' + mode, {'rres': sr2.rres[:2]}, case)
        return
    if pre_cache is None:
        if os.path.lexists(w.cache):
            sh.violation('failed_first_cache_write_leaves_cache_file|' + mode,
                         {'size': os.path.getsize(w.cache)}, case)
            return
    else:
        if not os.path.isfile(w.cache):
            sh.violation('failed_cache_write_lost_previous_cache|' + mode, {}, case)
            return
        with open(w.cache, 'rb') as f:
            now = (f.read(), os.stat(w.cache).st_mtime_ns)
        if now != pre_cache:
            sh.violation('failed_cache_write_changed_previous_cache|' + mode,
                         {'bytes_equal': now[0] == pre_cache[0], 'mtime_equal': now[1] == pre_cache[1]}, case)
            return
    for d in sr2.divs:
        if d['kind'] in ('rollback_tree', 'tmp_leftover'):
            sh.violation('write_fault|' + signature(d), detail(d), case)
            return
    # the next build is not refused and behaves like the model
    sr3 = w.build(program, body, vers, label=label)
    sh.count('build_after_write_fault')
    for d in sr3.divs:
        if d['kind'] in ('result', 'tree', 'extra_invocation'):
            sh.violation('after_write_fault|' + signature(d), detail(d), case_of(w, program))
            return


def run_shard(sh):
    import fbverif.checks.common as common
    orig = common.gen_program

    def gp(rng, cfg):
        return decorate(rng, orig(rng, cfg))
    common.gen_program = gp
    try:
        run_histories(sh, select=select, make_cfg=make_cfg,
                      steps_range=(2, 5) if sh.tier == 'quick' else (4, 9),
                      nested_prob=0.3, fail_prob=0.05, versions_prob=0.2,
                      after_build=lambda w, program, sr, ctx: after_build(sh, w, program, sr, ctx))
    finally:
        common.gen_program = orig
