"""C03 foreign files and directories are never modified or deleted."""
from .common import run_histories

CONFIG = {
    'level': 'exploration',
    'budget': {'quick': 30, 'thorough': 600},
    'rule': ('random programs x histories with a planting bias (foreign files inside created '
             'directories, at former output positions, next to the cache file, file<->dir swaps; >128 overwritten foreign files in one rolled-back build) across '
             'commits, rollbacks and clean; two monitors: (1) audit-hook events of the library: every '
             'remove/rename/open-for-write/truncate/utime must target the cache file, a build_file '
             'target of this call, an output recorded by the *model* for the previous committed build, '
             'or the private temp dir; rmtree only the temp dir; (2) snapshots: every file outside that '
             'set keeps bytes, mtime and inode, every directory not recorded as created stays; '
             'the audit hook itself is cross-checked against strace -f on a side workload (every mutating system call inside an API call must have an audit event: counters strace_*); evaluations = API calls judged; distinct_nontrivial = distinct (program shape, step '
             'kinds) histories with >=1 hit and >=1 miss'),
    'gates': ['unrepresentable_target_cases', 'ladder_cases', 'many_backup_runs', 'swap_cases', 'swap_cases_rolled_back', 'builds_committed', 'builds_rolled_back', 'cleans', 'ev:os.rmdir|post-root',
              'ev:os.rename|root', 'ev:os.remove|post-root', 'ev:os.remove|clean', 'ev:os.rmdir|clean'],
}

KINDS = {'foreign_event', 'foreign_changed', 'rollback_tree'}

WEIGHTS = {'write': 3, 'modify': 2, 'delete': 2, 'mkdir': 1.5, 'touch': 0.5, 'recreate': 0.5,
           'swap': 1.5, 'tamper_output': 2, 'delete_output': 1.5, 'plant_in_created': 4,
           'delcache': 0.2}


def select(d):
    return d['kind'] in KINDS


def strace_crosscheck(sh):
    """trusted base: every mutating system call made during API calls (strace -f) has an audit event"""
    import shutil
    if shutil.which('strace') is None:
        sh.notes.append('strace not available: audit-hook completeness cross-check skipped')
        return
    from ..strace_xcheck import run
    try:
        r = run(seed=sh.seed, nhist=15 if sh.tier == 'quick' else 200)
    except Exception as e:  # noqa
        sh.notes.append('strace cross-check could not run: %r' % (e,))
        return
    if r.get('status') == 'ok':
        sh.count('strace_syscalls_matched', r['matched'])
        sh.count('strace_windows', r['api_call_windows'])
        sh.notes.append('strace cross-check: %r' % (r,))
    elif r.get('status') == 'hole':
        sh.inconclusive.append('audit hook misses system calls the library makes: %r' % (r['examples'],))
    else:
        sh.notes.append('strace cross-check inconclusive: %s' % r.get('reason'))


def run_shard(sh):
    if sh.idx == sh.n - 1:
        strace_crosscheck(sh)
    from .swapcases import run_swap_cases
    run_swap_cases(sh, select, 'C03', nested_cache=sh.idx % 2 == 1)
    from .laddercases import run_ladder_cases, run_unrepresentable_cases
    if sh.idx % 8 == 2:
        run_unrepresentable_cases(sh, select)
    run_ladder_cases(sh, select)
    if sh.idx % 8 == 1:
        # more than 128 overwritten foreign files in one build that is rolled back: all of them are back
        import random
        from .c02 import many_backups
        many_backups(sh, random.Random(sh.seed * 977 + sh.idx), variant='foreign', kinds=KINDS)
    run_histories(sh, select=select, steps_range=(4, 8) if sh.tier == 'quick' else (6, 14),
                  nested_prob=0.35, clean_prob=0.2, fail_prob=0.2, mut_weights=WEIGHTS,
                  mut_range=(1, 3))
