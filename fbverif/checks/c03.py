"""C03 foreign files and directories are never modified or deleted."""
from .common import run_histories

CONFIG = {
    'level': 'exploration',
    'budget': {'quick': 30, 'thorough': 600},
    'rule': ('random programs x histories with a planting bias (foreign files inside created '
             'directories, at former output positions, next to the cache file, file<->dir swaps) across '
             'commits, rollbacks and clean; two monitors: (1) audit-hook events of the library: every '
             'remove/rename/open-for-write/truncate/utime must target the cache file, a build_file '
             'target of this call, an output recorded by the *model* for the previous committed build, '
             'or the private temp dir; rmtree only the temp dir; (2) snapshots: every file outside that '
             'set keeps bytes, mtime and inode, every directory not recorded as created stays; '
             'evaluations = API calls judged; distinct_nontrivial = distinct (program shape, step '
             'kinds) histories with >=1 hit and >=1 miss'),
    'gates': ['swap_cases', 'swap_cases_rolled_back', 'builds_committed', 'builds_rolled_back', 'cleans', 'ev:os.rmdir|post-root',
              'ev:os.rename|root', 'ev:os.remove|post-root', 'ev:os.remove|clean', 'ev:os.rmdir|clean'],
}

KINDS = {'foreign_event', 'foreign_changed', 'rollback_tree'}

WEIGHTS = {'write': 3, 'modify': 2, 'delete': 2, 'mkdir': 1.5, 'touch': 0.5, 'recreate': 0.5,
           'swap': 1.5, 'tamper_output': 2, 'delete_output': 1.5, 'plant_in_created': 4,
           'delcache': 0.2}


def select(d):
    return d['kind'] in KINDS


def run_shard(sh):
    from .swapcases import run_swap_cases
    run_swap_cases(sh, select, 'C03', nested_cache=sh.idx % 2 == 1)
    run_histories(sh, select=select, steps_range=(4, 8) if sh.tier == 'quick' else (6, 14),
                  nested_prob=0.35, clean_prob=0.2, fail_prob=0.2, mut_weights=WEIGHTS,
                  mut_range=(1, 3))
