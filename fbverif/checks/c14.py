"""C14 internal OS errors surface as exceptions and never leave half-done state."""
import errno
import random

from .common import FAULT_ERRNOS, signature, detail, case_of, account_build, nested_cache_rel
from ..env import Scratch
from ..world import World
from ..gen import GenCfg, gen_program, program_shape
from ..hist import random_mutation
from ..monitor import Fault
from .. import env

CONFIG = {
    'level': 'fault_enumeration',
    'budget': {'quick': 40, 'thorough': 600},
    'rule': ('random programs on random prior histories (fresh directories, stale directories, foreign files at '
             'targets -> backups, reuse of cached subtrees with nested outputs, cache write); a dry run lists every '
             'mutating file-system call the library makes before the commit (os.mkdir incl. makedirs, os.rename incl. '
             'replace, os.rmdir, open-for-write of the cache; only where that call can really fail, e.g. not mkdir of '
             'an existing directory); one run per such call k injects OSError/PermissionError(EIO|ENOSPC|EACCES) from '
             'the audit hook before the syscall; oracle: the API call in progress at the injection (innermost '
             'build_file/subbuild, or build itself outside the root function) raises an OSError - never swallowed; if it '
             'leaves build: C02 rollback oracle; if user code catches it: reference model in which that call failed in '
             'setup (virtual view of the remaining queries, final tree, no leaked directory, nothing left moved aside, '
             'cache rewritten), and the following fault-free build equals the model; evaluations = injected runs; '
             'distinct_nontrivial = distinct (event kind, phase, call kind, reused-subtree?, caught?, program shape class)'),
    'gates': ['injected', 'injected:os.mkdir', 'injected:os.rename', 'injected:open_w', 'caught_by_user',
              'left_build', 'phase:root', 'phase:post-root', 'next_builds'],
}

KINDS = {'result', 'tree', 'query', 'rollback_tree', 'tmp_leftover', 'issue', 'foreign_event',
         'foreign_changed', 'exception_identity_root'}
NEXT_KINDS = {'result', 'tree', 'extra_invocation', 'query', 'reused_output_rewritten'}
INJECT = ('os.mkdir', 'os.rename', 'os.rmdir', 'open_w')


def eligible_events(sr, w):
    """(phase, ordinal within phase among INJECT kinds, event) for every pre-commit library call"""
    out = []
    ordinal = {}
    cache_opened = False
    for e in sr.mon.events:
        if e['user'] or e['ev'] not in INJECT or any(p.startswith('<') for p in e['paths']):
            continue
        if not e.get('realistic', True):
            continue
        if e['ev'] == 'os.rmdir' and (e['paths'][0] + '/').startswith(w.tmp + '/'):
            continue        # removal of the backup area when the call ends: best effort
        ph = e['phase']
        if ph not in ('pre-root', 'root', 'post-root'):
            continue
        ordinal[ph] = ordinal.get(ph, 0) + 1
        if ph == 'post-root':
            # after the root function: moving the old cache aside and writing the new one come
            # before the commit; the commit itself (and a rollback) only remove things and are
            # best-effort by design - os.remove/os.rmdir there are not fault targets
            if sr.rres[0] != 'ok' or e['ev'] == 'os.rmdir':
                continue
        out.append((ph, ordinal[ph], e))
    return out


def run_shard(sh):
    rng = random.Random((sh.seed * 1000003 + sh.idx) & 0xffffffff)
    maxk = 25 if sh.tier == 'quick' else 120
    while sh.time_left() > 0:
        cfg = GenCfg(maxdepth=4 if rng.random() < 0.4 else 3, p_query=0.3, p_bf=0.42, p_sb=0.24, p_raise=0.08, p_nocreate=0.03, p_nonjson=0.01,
                     p_awkward=0.0, query_kinds=['is_file', 'is_dir', 'exists', 'list_dir', 'walk', 'read_text'])
        program = gen_program(rng, cfg)
        shape = program_shape(program)
        with Scratch('f') as sc:
            w = World(sc, nested_cache_rel(rng, program) if rng.random() < 0.2 else 'cache.gz')
            counter = [0]
            ok = True
            for _ in range(rng.randint(0, 3)):
                for _ in range(rng.randint(0, 2)):
                    random_mutation(rng, w, cfg, counter=counter,
                                    weights={'write': 4, 'modify': 1, 'delete': 2, 'mkdir': 1, 'swap': 1.5,
                                             'tamper_output': 1, 'delete_output': 1.5, 'plant_in_created': 2,
                                             'delcache': 0.2})
                ri = rng.randrange(len(program['roots']))
                sr = w.build(program, program['roots'][ri], {}, label=ri)
                if sr.divs:
                    ok = False
                    break
            if not ok:
                sh.count('prior_history_diverged')
                continue
            for _ in range(rng.randint(0, 2)):
                random_mutation(rng, w, cfg, counter=counter)
            ri = rng.randrange(len(program['roots']))
            body = program['roots'][ri]
            tok = w.save()
            try:
                dry = w.build(program, body, {}, label=ri)
                if dry.divs:
                    sh.count('dry_run_diverged')
                    continue
                evs = eligible_events(dry, w)
                reused_any = dry.stats.get('hits_top', 0) > 0
                # the cache-directory / cache-write calls are the same in every case: sample few
                ev_root = [x for x in evs if x[0] == 'root']
                ev_pre = [x for x in evs if x[0] == 'pre-root']
                ev_post = [x for x in evs if x[0] == 'post-root']
                if len(ev_root) > maxk:
                    ev_root = [ev_root[i] for i in sorted(rng.sample(range(len(ev_root)), maxk))]
                evs = ev_root + (rng.sample(ev_pre, 1) if ev_pre and rng.random() < 0.2 else []) + \
                    (rng.sample(ev_post, 1) if ev_post and rng.random() < 0.5 else [])
                for ph, k, ev in evs:
                    if sh.time_left() <= 0:
                        break
                    w.restore(tok, keep=True)
                    code = rng.choice(FAULT_ERRNOS)
                    cls = rng.choice(['OSError', 'PermissionError'])
                    opts = {'fault': {'k': k, 'kinds': list(INJECT), 'phases': [ph], 'errno': code, 'cls': cls,
                                      'expect_fail': ph != 'root'}, 'c14': True}
                    from ..replay import build_kwargs
                    kw = build_kwargs(opts, w)
                    if ph == 'root':
                        kw['model_after'] = model_after
                    sr = w.build(program, body, {}, label=ri, step_opts=opts, **kw)
                    sh.evaluations += 1
                    account_build(sh, sr)
                    f = kw['fault']
                    if f.fired is None:
                        sh.count('fault_not_reached')
                        continue
                    sh.count('injected')
                    sh.count('injected:' + f.fired['ev'])
                    sh.count('phase:' + ph)
                    case = case_of(w, program)
                    fc = sr.rctx.fault_call
                    tag = '%s|%s' % (f.fired['ev'], ph)
                    # ---- oracle 1: never swallowed
                    if ph == 'root' and fc is not None:
                        outs = sr.rctx.outcomes.get(fc, [])
                        nth = getattr(sr.rctx, 'fault_call_ordinal', 0)
                        exc = outs[nth] if nth < len(outs) else 'in-progress'
                        if not (isinstance(exc, OSError) and caused_by(exc, f.exc)):
                            if f.fired['ev'] == 'os.rmdir':
                                # removing a directory is not one of the calls whose failure has to
                                # surface (it may be best-effort cleanup); then the call must have
                                # carried on as if nothing happened: model_after() returned no failure
                                # and the state is compared with the fault-free model below
                                sh.count('rmdir_fault_tolerated_by_library')
                            else:
                                sh.violation('injected_error_swallowed_by_api_call|' + tag + '|' + fc[0],
                                             {'call': fc[0], 'outcome': repr(exc)[:80]}, case)
                                continue
                    else:
                        if sr.rres[0] != 'exc' or not isinstance(sr.exc_obj, OSError):
                            sh.violation('injected_error_swallowed_by_build|' + tag, {'rres': sr.rres[:2]}, case)
                            continue
                    caught = sr.rres[0] == 'ok' or not isinstance(sr.exc_obj, OSError)
                    sh.count('caught_by_user' if caught else 'left_build')
                    sh.nt((f.fired['ev'], ph, None if fc is None else fc[0], reused_any, caught,
                           w.path_class(dry, env.rel(w.sb, f.fired['paths'][0]))))
                    # ---- oracle 2: state
                    bad = False
                    for d in sr.divs:
                        sh.count('div:' + d['kind'])
                        if d['kind'] in KINDS:
                            sh.violation(signature(d) + '|' + tag + ('|caught' if caught else '|left-build'),
                                         detail(d), case)
                            bad = True
                    if bad or sr.divs:
                        continue
                    # ---- oracle 3: the next (fault-free) build
                    sr2 = w.build(program, body, {}, label=ri)
                    sh.count('next_builds')
                    for d in sr2.divs:
                        sh.count('div_next:' + d['kind'])
                        if d['kind'] in NEXT_KINDS:
                            sh.violation('after_fault|' + signature(d) + '|' + tag, detail(d), case_of(w, program))
                    if len(sh.samples) < 2 and caught and ph == 'root':
                        sh.sample({'program': program, 'steps': w.steps[-4:],
                                   'injected_at': {'event': f.fired['ev'],
                                                   'path': env.rel(w.sb, f.fired['paths'][0])[:60], 'phase': ph},
                                   'call_in_progress': [fc[0], env.rel(w.sb, str(fc[1]))[:60]] if fc else None,
                                   'surfaced_as': repr(sr.rctx.outcomes.get(fc, ['?'])[-1])[:80] if fc else sr.rres[1]})
            finally:
                w.discard(tok)
        sh.count('programs')


def caused_by(exc, injected):
    """True if exc is the injected error or was raised because of it (__cause__/__context__ chain)"""
    seen = 0
    while exc is not None and seen < 10:
        if exc is injected:
            return True
        exc = exc.__cause__ or exc.__context__
        seen += 1
    return False


def model_after(rctx, mon, sr):
    """the call in progress at the injection fails in setup in the model, with the class observed"""
    fc = rctx.fault_call
    if fc is None:
        return {}
    outs = rctx.outcomes.get(fc, [])
    nth = getattr(rctx, 'fault_call_ordinal', 0)
    exc = outs[nth] if nth < len(outs) else None
    injected = mon.fault.exc if mon.fault is not None else None
    if isinstance(exc, OSError) and caused_by(exc, injected):
        try:
            e = exc.__class__(exc.errno or errno.EIO, 'injected fault (model)')
        except Exception:
            e = OSError(errno.EIO, 'injected fault (model)')
    else:
        if mon.fault is not None and mon.fault.fired is not None and mon.fault.fired['ev'] == 'os.rmdir':
            return {}       # tolerated (see oracle 1): compare with the fault-free model
        e = OSError(errno.EIO, 'injected fault (model)')
    return {((fc[1] if fc[0] == 'bf' else fc), nth): e}
