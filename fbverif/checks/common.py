"""Shared pieces of the history-based checks."""
import random

from .. import env
from ..env import Scratch
from ..world import World
from ..gen import GenCfg, gen_program, gen_versions, program_shape
from ..hist import random_mutation
from ..model import iter_nodes


def _ans(a):
    if a is None:
        return '-'
    if a[0] == 'err':
        return 'err:' + str(a[1])
    if a[0] == 'exc':
        return 'exc:' + str(a[1])
    v = a[1]
    if isinstance(v, bool):
        return 'ok:' + str(v)
    return 'ok'


def signature(d):
    """mechanism signature of a divergence (never contains random values)"""
    k = d['kind']
    if k == 'query':
        return 'query|%s|real=%s|model=%s|%s' % (d['q'], _ans(d['real']), _ans(d['model']),
                                                 d.get('diff') or d.get('pathclass'))
    if k in ('result', 'twin_result', 'model_mismatch', 'clean_result'):
        a = d.get('real') or d.get('model')
        b = d.get('model') if k != 'twin_result' else d.get('twin')
        if k == 'model_mismatch':
            a, b = d.get('model'), d.get('twin')
        if d.get('cause'):
            return '%s|%s|%s|cause:%s' % (k, _ans(a), _ans(b), d['cause'])
        return '%s|%s|%s' % (k, _ans(a), _ans(b))
    if k in ('tree', 'clean_tree', 'twin_tree'):
        df = d['diffs'][0]
        cl = d.get('classes', [''])[0]
        ra = df[1] if df[1] is None or not str(df[1]).startswith('f:') else 'f'
        rb = df[2] if df[2] is None or not str(df[2]).startswith('f:') else 'f'
        return '%s|real=%s|expected=%s|%s' % (k, ra, rb, cl)
    if k == 'rollback_tree':
        df = d['diffs'][0]
        return 'rollback_tree|%s|%s' % (df[1], df[2])
    if k == 'extra_invocation':
        return 'extra_invocation|%s' % d.get('why')
    if k == 'missing_invocation':
        return 'missing_invocation|%s' % d.get('why')
    if k == 'foreign_event':
        return 'foreign_event|%s|%s|%s' % (d.get('ev'), d.get('phase'), ';'.join(d.get('classes', [])))
    if k == 'foreign_changed':
        return 'foreign_changed|%s|%s|%s' % (d.get('phase'), d['what'][0][1], d.get('classes', [''])[0])
    if k == 'issue':
        return 'issue|%s' % d.get('issue')
    if k == 'reused_output_rewritten':
        return 'reused_output_rewritten|%s' % d.get('what')
    return k


def detail(d):
    out = {}
    for k, v in d.items():
        if k in ('real_tb',):
            if v:
                out[k] = v[-600:]
            continue
        out[k] = v
    return out


def step_kinds(steps):
    return tuple(s[0] for s in steps)


def case_of(world, program):
    return {'program': program, 'steps': list(world.steps), 'cache_rel': world.cache_rel}


class HistoryRun:
    """one random history; yields StepResults; stops at the first divergence"""

    def __init__(self, rng, cfg, nested_cache=False, program=None, mut_weights=None):
        self.rng = rng
        self.cfg = cfg
        self.nested = nested_cache
        self.program = program or gen_program(rng, cfg)
        self.mut_weights = mut_weights
        self.counter = [0]

    def world(self, sc):
        return World(sc, 'k/kk/cache.gz' if self.nested else 'cache.gz')


def bf_targets(program):
    out = set()

    def rec(body):
        for st in body:
            if st[0] == 'bf':
                out.add(st[1])
            elif st[0] == 'ifq':
                rec(st[3])
                rec(st[4])
            elif st[0] == 'par':
                for b in st[1]:
                    rec(b)
    for fd in program['funcs'].values():
        rec(fd['body'])
    for rb in program['roots']:
        rec(rb)
    return out


def nested_cache_rel(rng, program):
    """the cache file in its own directories, or inside directories whose names the program's paths
    use too (outputs and queries next to / below / above the cache file's directory).  User obligation:
    no build_file target is the cache file or one of its ancestor directories (an output there can never
    coexist with the cache file: the library removes the directory to make room and the cache write fails)"""
    targets = bf_targets(program)
    cands = ['k/kk/cache.gz', 'a/cache.gz', 'a/b/cache.gz', 'c/b/a/cache.gz', 'b/cache.gz']
    rng.shuffle(cands)
    for c in cands:
        anc = set()
        parts = c.split('/')
        for i in range(1, len(parts) + 1):
            anc.add('/'.join(parts[:i]))
        if not (targets & anc):
            return c
    return 'k/kk/cache.gz'


def fix_issue_div(d):
    """'issue' divergences carry the client-side monitor kind in 'kind' overwritten; normalise"""
    return d


def run_histories(sh, *, select, make_cfg=None, steps_range=(4, 8), twin_prob=0.0,
                  nested_prob=0.2, clean_prob=0.08, fail_prob=0.12, versions_prob=0.15,
                  after_build=None, after_clean=None, mut_weights=None, mut_range=(0, 2),
                  max_cases=None, on_history_end=None):
    """Generic loop of the history-based checks.

    select(d)           -> True if divergence d is about this property
    after_build(w, program, sr, ctx)   optional extra probes (may call sh.violation)
    """
    rng = random.Random((sh.seed * 1000003 + sh.idx) & 0xffffffff)
    ncases = 0
    while sh.time_left() > 0 and (max_cases is None or ncases < max_cases):
        ncases += 1
        cfg = make_cfg(rng) if make_cfg else GenCfg()
        nested = rng.random() < nested_prob
        program = gen_program(rng, cfg)
        shape = program_shape(program)
        hist_hits = hist_miss = 0
        with Scratch('h') as sc:
            # nested cache file: in its own directories, or inside directories whose names the program's
            # paths use too (outputs next to / below / above the cache file's directory)
            w = World(sc, nested_cache_rel(rng, program) if nested else 'cache.gz')
            counter = [0]
            cut = False
            vers = {}
            for step in range(rng.randint(*steps_range)):
                for _ in range(rng.randint(*mut_range)):
                    k = random_mutation(rng, w, cfg, weights=mut_weights, counter=counter)
                    if k:
                        sh.count('mut:' + k)
                ri = rng.randrange(len(program['roots']))
                body = program['roots'][ri]
                label = ri
                if rng.random() < fail_prob:
                    i = rng.randint(0, len(body))
                    body = body[:i] + [['raise', 'root']] + body[i:]
                    label = 'failing'
                if rng.random() < versions_prob:
                    vers = gen_versions(rng, program)
                twin = None
                if twin_prob and rng.random() < twin_prob:
                    twin = w.twin_build(program, body, vers)
                    sh.count('twin_runs')
                sr = w.build(program, body, vers, label=label)
                if twin is not None:
                    w.compare_twin(sr, twin)
                sh.evaluations += 1
                account_build(sh, sr)
                hist_hits += sr.stats.get('hits_top', 0)
                if sr.prev_record is not None:
                    hist_miss += sr.stats.get('must_run', 0)
                if handle_divs(sh, w, program, sr, select):
                    cut = True
                    break
                if label != 'failing' and rng.random() < 0.12:
                    # a streak: the very same build two more times with nothing in between (an entry is
                    # served from the cache for the second and third consecutive time, copied from one
                    # cache generation to the next)
                    for _rep in range(2):
                        sr = w.build(program, body, vers, label=label)
                        sh.evaluations += 1
                        sh.count('streak_rebuilds')
                        account_build(sh, sr)
                        if handle_divs(sh, w, program, sr, select):
                            cut = True
                            break
                    if cut:
                        break
                if after_build is not None:
                    if after_build(w, program, sr, dict(rng=rng, cfg=cfg, body=body, vers=vers,
                                                        label=label)):
                        cut = True
                        break
                if rng.random() < clean_prob:
                    sr = w.clean()
                    sh.count('cleans')
                    sh.evaluations += 1
                    for k, v in sr.mon.counts.items():
                        if k[2] == 'lib':
                            sh.count('ev:%s|%s' % (k[0], k[1]), v)
                    if handle_divs(sh, w, program, sr, select):
                        cut = True
                        break
                    if after_clean is not None and after_clean(w, program, sr, dict(rng=rng, cfg=cfg)):
                        cut = True
                        break
            if cut:
                sh.count('truncated_histories')
            sh.count('histories')
            if hist_hits and hist_miss:
                sh.nt((shape, step_kinds(w.steps)))
            if on_history_end:
                on_history_end(w, program, hist_hits, hist_miss)
            if len(sh.samples) < 2 and hist_hits and hist_miss:
                sh.sample({'program': program, 'steps': w.steps[:12], 'cache': w.cache_rel,
                           'cache_hits': hist_hits, 'justified_misses': hist_miss})


def account_build(sh, sr):
    sh.count('builds')
    if sr.committed:
        sh.count('builds_committed')
    else:
        sh.count('builds_rolled_back')
    for k, v in sr.stats.items():
        sh.count('stat:' + k, v)
    if sr.mon is not None:
        for k, v in sr.mon.counts.items():
            if k[2] == 'lib':
                sh.count('ev:%s|%s' % (k[0], k[1]), v)
    if sr.rctx is not None:
        sh.count('queries_judged', len(sr.rctx.qlog))
        sh.count('functions_invoked', len(sr.rctx.log))
    if sr.mb is not None:
        for n in iter_nodes(sr.mb.roots):
            if n.setup:
                sh.count('setup_failures')
            elif n.raised:
                sh.count('raised_calls')
    if sr.stats.get('rollback_dir_reappeared'):
        sh.count('rollback_latitude_used')


def handle_divs(sh, w, program, sr, select):
    """returns True if the history has to be cut (model and disk may have diverged)"""
    if not sr.divs:
        return False
    for d in sr.divs:
        sh.count('div:' + d['kind'])
        if select(d):
            sh.violation(signature(d), detail(d), case_of(w, program))
    return True


# errno values of injected OS faults: ordinary I/O failures plus the ones that tempt a library into a fallback
# (another file system, busy, read-only, out of descriptors).  Not ENOENT/EEXIST/ENOTEMPTY, which the library
# handles legitimately.
FAULT_ERRNOS = ['EIO', 'ENOSPC', 'EACCES', 'EXDEV', 'EBUSY', 'EROFS', 'EMFILE']

