"""C13 comparison modes: HASH tracks content, METADATA tracks size+mtime."""
import random

from .common import signature, detail, case_of, account_build
from ..env import Scratch
from ..world import World
from ..gen import GenCfg, gen_program, program_shape
from ..hist import random_mutation
from ..model import iter_nodes, Node
from .. import env

CONFIG = {
    'level': 'exploration',
    'budget': {'quick': 30, 'thorough': 480},
    'rule': ('factorial core, enumerated completely: role {input read, output integrity, output read back in the '
             'same build} x position {top-level, nested in a reused subtree} x operation {read_text, read_binary, '
             'declare_read | build_file_with_comparison} x mode {HASH, METADATA} x mutation {none, touch, '
             'content same-size new-stamp, content new-size new-stamp, content same-size same-stamp, content '
             'new-size same-stamp}: build, mutate, rebuild, unchanged rebuild; oracle = reference model with '
             'comparison values (HASH -> content only, METADATA -> (size, mtime_ns) only, the mode recorded in '
             'build N governs N->N+1): invoked set must equal the justified set in both directions, results and '
             'trees must equal the model, which serves the recorded value of every operation it decides to be reusable '
             '(so this also holds where METADATA is documentedly blind: the stale value is the specified one); plus random programs where every observed/built file of every committed build '
             'gets each mutation on a saved copy; evaluations = judged rebuilds; distinct_nontrivial = distinct '
             '(role, position, operation, mode, mutation, expected re-execution?) cells observed'),
    'exhaustive_layer': 'the factorial core (768 cells incl. 1 ns / 999 ns timestamp moves, mtime set to 0 and tail-byte changes of 5 kB files: the readback role additionally x {producer METADATA|HASH-compared} x {fresh|preserved output timestamp}) (every cell enumerated in every run, split over shards)',
    'gates': ['cells', 'cell_expected_rerun', 'cell_expected_cached', 'blind_cells', 'random_mutation_rebuilds',
              'hash_touch_cells', 'metadata_content_only_cells', 'shape_cells', 'shape_cells_expected_rerun'],
}

MUTS = ['none', 'touch', 'c_same_new', 'c_size_new', 'c_same_keep', 'c_size_keep', 'tail_keep', 'tail_new',
        'touch_1ns', 'touch_999ns', 'touch_minus_1ns', 'touch_to_zero']
KINDS = {'extra_invocation', 'missing_invocation', 'reused_output_rewritten'}
VALUE_KINDS = {'result', 'tree', 'query'}


def core_cells():
    cells = []
    for role in ('input', 'integrity', 'readback', 'readback-Hout', 'readback-fixed', 'readback-Hout-fixed'):
        ops = ['bfcmp'] if role == 'integrity' else ['read_text', 'read_binary', 'declare_read']
        for pos in ('top', 'nested'):
            for op in ops:
                for mode in ('H', 'M'):
                    for mut in MUTS:
                        cells.append((role, pos, op, mode, mut))
    return cells


def cell_program(role, pos, op, mode):
    # readback variants: the producing build_file is itself HASH-compared (so the cache lookup
    # hashes the OLD content before the rebuild) and/or its generator preserves the timestamp
    # (same size, same mtime, different content: only HASH can see the rebuild)
    hout = 'Hout' in role
    fixed = 'fixed' in role
    if role.startswith('readback'):
        role = 'readback'
    funcs = {}
    if role == 'input':
        funcs['S'] = {'kind': 'sb', 'idx': 1, 'body': [['q', op, 'in', mode]]}
        inner = [['sb', 'S', {'catch': False}]]
        target = 'in'
    elif role == 'integrity':
        funcs['F'] = {'kind': 'bf', 'idx': 1, 'body': [['q', 'read_binary', 'src', 'H'], ['write', '']]}
        inner = [['bf', 'd/out', 'F', {'catch': False, 'cmp': mode}]]
        target = 'd/out'
    else:
        funcs['F'] = {'kind': 'bf', 'idx': 1, 'body': [['q', 'read_binary', 'src', 'H'],
                                                       ['write', '', {'stamp': 'fixed'} if fixed else {}]]}
        funcs['R'] = {'kind': 'sb', 'idx': 2, 'body': [['q', op, 'd/out', mode]]}
        fo = {'catch': False}
        if hout:
            fo['cmp'] = 'H'
        inner = [['bf', 'd/out', 'F', fo], ['sb', 'R', {'catch': False}]]
        target = 'src'
    if pos == 'nested':
        funcs['P'] = {'kind': 'sb', 'idx': 0, 'body': inner}
        root = [['sb', 'P', {'catch': False}]]
    else:
        root = inner
    return {'funcs': funcs, 'roots': [root]}, target


def apply_mut(w, r, mut, tag):
    p = w.ap(r)
    e = w.model.disk.get(p)
    if e is None or e[0] != 'f':
        return None
    old = e[1]
    same = (b'Z' * len(old)) if old != b'Z' * len(old) else (b'Y' * len(old))
    if len(old) == 0:
        same = None
    bigger = old + b'+' + tag.encode()
    if mut == 'none':
        return 'none'
    if mut == 'touch':
        return 'touch' if w.ext_touch(r) else None
    if mut in ('touch_1ns', 'touch_999ns', 'touch_minus_1ns'):
        # METADATA is specified on mtime_ns: the smallest representable change counts
        return mut if w.ext_touch(r, {'touch_1ns': 1, 'touch_999ns': 999, 'touch_minus_1ns': -1}[mut]) else None
    if mut == 'touch_to_zero':
        # mtime 0 (the epoch) is a legal, falsy value: recorded and compared like any other
        import os as _os
        return mut if w.ext_touch(r, -_os.stat(p).st_mtime_ns) else None
    if mut == 'c_same_new':
        return mut if same is not None and w.ext_rewrite(r, same, False) else None
    if mut == 'c_size_new':
        return mut if w.ext_rewrite(r, bigger, False) else None
    if mut == 'c_same_keep':
        return mut if same is not None and w.ext_rewrite(r, same, True) else None
    if mut == 'c_size_keep':
        return mut if w.ext_rewrite(r, bigger, True) else None
    if mut in ('tail_keep', 'tail_new'):
        # only the last byte of a multi-kilobyte file changes (the hash must cover the whole file)
        if len(old) < 2:
            return None
        tail = old[:-1] + (b'#' if old[-1:] != b'#' else b'%')
        return mut if w.ext_rewrite(r, tail, mut == 'tail_keep') else None
    raise ValueError(mut)


def judge(sh, w, program, sr, blind, tagsig):
    """returns True if a violation was recorded"""
    bad = False
    for d in sr.divs:
        sh.count('div:' + d['kind'])
        # (the reference model serves the RECORDED value of every operation it decides to be
        #  reusable, so results and trees are comparable even where METADATA is documentedly
        #  blind to a content change - `blind` is only counted)
        if d['kind'] in KINDS or d['kind'] in VALUE_KINDS:
            sh.violation(signature(d) + '|' + tagsig, detail(d), case_of(w, program))
            bad = True
    return bad


def run_cell(sh, cell):
    role, pos, op, mode, mut = cell
    program, target = cell_program(role, pos, op, mode)
    with Scratch('m') as sc:
        w = World(sc)
        big = mut.startswith('tail')
        w.ext_write('in', b'input-0' + (b'.' * 5000 if big else b''))
        w.ext_write('src', b'source-0' + (b'.' * 5000 if big else b''))
        sr = w.build(program, program['roots'][0], {}, label=0)
        if sr.divs or not sr.committed:
            sh.violation('c13_core_first_build_diverged', {'cell': cell, 'divs': [dict(d) for d in sr.divs][:2]},
                         case_of(w, program))
            return
        if apply_mut(w, target, mut, 'x') is None:
            sh.count('cell_mutation_not_applicable')
            return
        blind = mut == 'c_same_keep' or (mut == 'c_size_keep' and False)
        # METADATA cannot see a same-size same-stamp content change anywhere in the chain;
        # HASH sees content.  Which observers are blind is decided by the model; values are
        # compared only when no observer in the build used METADATA on a blindly changed file.
        blind = mut in ('c_same_keep', 'tail_keep') or 'fixed' in role
        sr2 = w.build(program, program['roots'][0], {}, label=0)
        sh.evaluations += 1
        sh.count('cells')
        account_build(sh, sr2)
        n_must = sr2.stats.get('must_run', 0)
        exp_rerun = n_must > 0
        sh.count('cell_expected_rerun' if exp_rerun else 'cell_expected_cached')
        if blind:
            sh.count('blind_cells')
        if mode == 'H' and mut == 'touch':
            sh.count('hash_touch_cells')
        if mode == 'M' and mut == 'c_same_keep':
            sh.count('metadata_content_only_cells')
        sh.nt((role, pos, op, mode, mut, exp_rerun))
        tagsig = '%s|%s|%s|%s|%s' % (role, pos, op, mode, mut)
        if judge(sh, w, program, sr2, blind, tagsig) or sr2.divs:
            return
        # unchanged rebuild: wrong recorded comparison values show up here
        sr3 = w.build(program, program['roots'][0], {}, label=0)
        sh.evaluations += 1
        account_build(sh, sr3)
        judge(sh, w, program, sr3, blind, tagsig + '|unchanged-after')
        if len(sh.samples) < 2 and exp_rerun:
            sh.sample({'cell': list(cell), 'program': program, 'steps': w.steps,
                       'invoked_after_mutation': [f for (_t, _k, f) in sr2.rctx.log],
                       'model_must_run': n_must})


def shape_cells():
    """content pairs aimed at how a content hash is computed (chunked reads, buffers, padding,
    order of chunks), not at what the file means: (name, old, new, keep_stamp)"""
    out = []
    out.append(('nul_append', b'abc', b'abc\x00', False))
    out.append(('nul_append_keep', b'abc', b'abc\x00', True))
    out.append(('nul_strip', b'abc\x00\x00', b'abc', False))
    out.append(('empty_to_nul', b'', b'\x00', False))
    out.append(('nul_to_empty', b'\x00', b'', True))
    out.append(('empty_to_data', b'', b'x', False))
    out.append(('data_to_empty', b'x', b'', False))
    out.append(('zeros_grow', b'\x00' * 100, b'\x00' * 101, True))
    for B in (1024, 4096, 8192, 65536, 131072):
        rec = bytes(range(16)) * 2                      # 32-byte records: the period divides every chunk size
        n = (B // 32) * 2 + 5
        out.append(('periodic_grow_%d' % B, rec * n, rec * (n + 3), True))
        out.append(('periodic_shrink_%d' % B, rec * (n + 7), rec * n, False))
        out.append(('zeros_cross_%d' % B, b'\x00' * (B - 1), b'\x00' * (B + 1), True))
        body = bytes((i * 7 + 3) % 251 for i in range(2 * B + 10))
        for off in (0, B - 1, B, B + 1, 2 * B + 9):
            ch = bytearray(body)
            ch[off] ^= 0x55
            out.append(('byte_%d_of_%d' % (off, B), body, bytes(ch), True))
        out.append(('swap_chunks_%d' % B, body[:2 * B], body[B:2 * B] + body[:B], True))
        out.append(('exact_chunk_grow_%d' % B, body[:B], body[:B] + body[:1], True))
    return out


def run_shape_cell(sh, shape, role, op, mode):
    name, old, new, keep = shape
    program, target = cell_program(role, 'top', op, mode)
    with Scratch('m') as sc:
        w = World(sc)
        w.ext_write('in', old)
        w.ext_write('src', b'source-0')
        sr = w.build(program, program['roots'][0], {}, label=0)
        if sr.divs or not sr.committed:
            sh.violation('c13_shape_first_build_diverged', {'shape': name, 'divs': [dict(d) for d in sr.divs][:2]},
                         case_of(w, program))
            return
        if role == 'integrity':
            e = w.model.disk.get(w.ap(target))
            cur = e[1]
            # the generated output is tampered with in the same shape: NULs appended / last byte dropped
            new = cur + b'\x00' * (1 + len(new) % 3) if len(new) >= len(old) else cur[:-1]
        if not w.ext_rewrite(target, new, keep):
            sh.count('cell_mutation_not_applicable')
            return
        tagsig = 'shape|%s|%s|%s|%s' % (role, op, mode, name.rstrip('0123456789_'))
        sr2 = w.build(program, program['roots'][0], {}, label=0)
        sh.evaluations += 1
        sh.count('shape_cells')
        account_build(sh, sr2)
        if sr2.stats.get('must_run', 0) > 0:
            sh.count('shape_cells_expected_rerun')
        sh.nt(('shape', role, op, mode, name, sr2.stats.get('must_run', 0) > 0))
        if judge(sh, w, program, sr2, False, tagsig) or sr2.divs:
            return
        sr3 = w.build(program, program['roots'][0], {}, label=0)
        sh.evaluations += 1
        judge(sh, w, program, sr3, False, tagsig + '|unchanged-after')


def observed_files(mb, w):
    out = {}

    def rec(children, depth):
        for c in children:
            if isinstance(c, Node):
                if c.t == 'bf' and not c.raised:
                    out.setdefault(c.path, set()).add(('out', c.cmp, depth > 0))
                rec(c.sub, depth + 1)
            elif c[1] == 'read' and c[3][0] == 'ok':
                out.setdefault(c[2][0], set()).add(('read', c[2][1], depth > 0))
    rec(mb.roots, 0)
    return out


def run_shard(sh):
    rng = random.Random((sh.seed * 1000003 + sh.idx) & 0xffffffff)
    cells = core_cells()
    mine = cells[sh.idx::sh.n]
    for cell in mine:
        run_cell(sh, cell)
    # ---------- content shapes aimed at the hashing itself (every shape in every run, split over shards)
    shapes = [(sp, role, op, mode) for sp in shape_cells() for role in ('input', 'integrity')
              for op in (('read_binary', 'declare_read') if role == 'input' else ('bfcmp',)) for mode in ('H', 'M')]
    for sp, role, op, mode in shapes[sh.idx::sh.n]:
        run_shape_cell(sh, sp, role, op, mode)
    sh.exhaustive = True
    # ---------- random programs: every observed/built file x every mutation
    while sh.time_left() > 0:
        cfg = GenCfg(p_hash=0.5, p_cmp=0.6, p_query=0.45, p_raise=0.06, p_nocreate=0.03,
                     query_kinds=['read_text', 'read_binary', 'declare_read', 'read_text', 'read_binary',
                                  'is_file', 'exists', 'list_dir'])
        program = gen_program(rng, cfg)
        # some generators preserve the timestamp of their output (then only invocation sets are judged)
        has_fixed = False
        if rng.random() < 0.4:
            for f in program['funcs'].values():
                for st in f['body']:
                    if st[0] == 'write' and rng.random() < 0.6:
                        if len(st) < 2:
                            st.append('')
                        if len(st) < 3:
                            st.append({'stamp': 'fixed'})
                        has_fixed = True
        with Scratch('m') as sc:
            w = World(sc)
            counter = [0]
            for _ in range(rng.randint(2, 5)):
                random_mutation(rng, w, cfg, counter=counter,
                                weights={'write': 5, 'modify': 1, 'mkdir': 0.5, 'delete': 0.5})
            ri = rng.randrange(len(program['roots']))
            body = program['roots'][ri]
            ok = True
            for _ in range(rng.randint(1, 2)):
                sr = w.build(program, body, {}, label=ri)
                if not sr.committed or sr.divs:
                    ok = False
                    break
            if not ok:
                sh.count('random_prefix_unusable')
                continue
            obs = observed_files(sr.mb, w)
            items = sorted(obs.items())
            rng.shuffle(items)
            for p, roles in items[:4]:
                for mut in MUTS[1:]:
                    if sh.time_left() <= 0:
                        break
                    tok = w.save()
                    try:
                        if apply_mut(w, env.rel(w.sb, p), mut, str(counter[0])) is None:
                            continue
                        blind = mut in ('c_same_keep', 'tail_keep') or has_fixed
                        sr2 = w.build(program, body, {}, label=ri)
                        sh.evaluations += 1
                        sh.count('random_mutation_rebuilds')
                        account_build(sh, sr2)
                        for (what, mode, nested) in roles:
                            sh.nt(('rand', what, mode, nested, mut, sr2.stats.get('must_run', 0) > 0))
                        if judge(sh, w, program, sr2, blind, 'random|' + mut) or sr2.divs:
                            continue
                        sr3 = w.build(program, body, {}, label=ri)
                        sh.evaluations += 1
                        judge(sh, w, program, sr3, blind, 'random|' + mut + '|unchanged-after')
                    finally:
                        w.restore(tok)
