"""C05 cache effectiveness: no unjustified re-execution."""
from .common import run_histories, signature, detail, case_of, account_build, handle_divs
from ..gen import GenCfg
from ..hist import existing
from .. import env

CONFIG = {
    'level': 'exploration',
    'budget': {'quick': 30, 'thorough': 600},
    'rule': ('random programs x histories; after every build the invocation log of the real run is '
             'compared with the set of calls the reference model marks as justified (no record / '
             'name,args,version differ / record raised / setup failure inside / an observation or '
             'output comparison differs, decided by trace equality of two from-scratch model runs); '
             'every committed build is additionally followed by (a) two unchanged rebuilds, (b) a '
             'rebuild after mutating a path no recorded operation observed, (c) a rebuild after a '
             'single observed-path mutation; reused outputs must keep inode and mtime; '
             'distinct_nontrivial = distinct (program shape, step kinds) histories with >=1 hit and >=1 justified miss'),
    'gates': ['overlay_cases', 'builds_committed', 'stat:hits_top', 'stat:must_run', 'probe_a', 'probe_b', 'probe_c'],
}

KINDS = {'extra_invocation', 'reused_output_rewritten', 'invoked_twice'}


def select(d):
    return d['kind'] in KINDS


def observed_paths(mb):
    """paths observed by any recorded operation of the build (model trace)"""
    from ..model import Node
    obs = set()

    def rec(children):
        for c in children:
            if isinstance(c, Node):
                if c.t == 'bf':
                    obs.add(c.path)
                rec(c.sub)
            else:
                obs.add(c[2][0])
    rec(mb.roots)
    return obs


def after_build(sh, w, program, sr, ctx):
    if not sr.committed:
        return False
    rng = ctx['rng']
    body, vers, label = ctx['body'], ctx['vers'], ctx['label']
    tok = w.save()
    try:
        choice = rng.random()
        if choice < 0.4:
            # (a) unchanged rebuild, twice
            for i in range(2):
                sr2 = w.build(program, body, vers, label=label)
                sh.evaluations += 1
                sh.count('probe_a')
                account_build(sh, sr2)
                if i == 1 and sr2.rctx.log:
                    # second unchanged rebuild: only calls that raised last time may run
                    pass
                if handle_divs(sh, w, program, sr2, select):
                    return False
        elif choice < 0.7:
            # (b) mutate a path nobody observed
            obs = observed_paths(sr.mb)
            cand = []
            for n1 in ['a', 'b', 'c', 'zz', 'q']:
                for n2 in ['', '/zz', '/q']:
                    r = n1 + n2
                    p = w.ap(r)
                    if any(o == p or o.startswith(p + '/') or p.startswith(o + '/') for o in obs):
                        continue
                    cand.append(r)
            # listing observers: a walk/list_dir of an ancestor observes new names
            cand = [r for r in cand if not _listed(sr.mb, w.ap(r))]
            if cand:
                r = rng.choice(cand)
                if w.ext_write(r, b'unobserved'):
                    sr2 = w.build(program, body, vers, label=label)
                    sh.evaluations += 1
                    sh.count('probe_b')
                    account_build(sh, sr2)
                    if handle_divs(sh, w, program, sr2, select):
                        return False
        else:
            # (c) one observed-path mutation
            obs = sorted(o for o in observed_paths(sr.mb) if o.startswith(w.sb + '/') and o != w.cache)
            if obs:
                p = rng.choice(obs)
                r = env.rel(w.sb, p)
                k = w.model.disk.get(p, ('x',))[0]
                done = False
                if k == 'f':
                    done = w.ext_write(r, b'changed!') if rng.random() < 0.7 else w.ext_delete(r)
                elif k == 'd':
                    done = w.ext_delete(r)
                else:
                    done = w.ext_write(r, b'appeared')
                if done:
                    sr2 = w.build(program, body, vers, label=label)
                    sh.evaluations += 1
                    sh.count('probe_c')
                    account_build(sh, sr2)
                    if handle_divs(sh, w, program, sr2, select):
                        return False
    finally:
        w.restore(tok)
    return False


def _listed(mb, p):
    from ..model import Node

    def rec(children):
        for c in children:
            if isinstance(c, Node):
                if rec(c.sub):
                    return True
            elif c[1] in ('list_dir', 'walk'):
                d = c[2][0]
                if p == d or p.startswith(d.rstrip('/') + '/'):
                    return True
        return False
    return rec(mb.roots)


def run_shard(sh):
    from .overlaycases import run_overlay_cases
    run_overlay_cases(sh, select, stride=2 if sh.tier == 'quick' else 1)
    run_histories(sh, select=select, steps_range=(3, 6) if sh.tier == 'quick' else (5, 10),
                  fail_prob=0.08,
                  after_build=lambda w, program, sr, ctx: after_build(sh, w, program, sr, ctx))
