"""Directed matrix for the bookkeeping of directories that exist only because of
outputs (BuildDirs reservations during a build, the CreatedFiles overlay during
cache replay): a cacheable subbuild S performs 2-3 build_file calls - sequential
or nested inside each other - into a directory D and a sub-directory D/E, each
succeeding or failing, then queries D and D/E; D is absent / a foreign empty
directory / a foreign directory holding a file before the first build, and is
toggled externally (deleted, created, planted, unchanged) before the second.
The second build must answer as from scratch (C01/C04) and re-execute exactly
what is justified (C05).  Random programs reach these shapes only rarely."""
import itertools

from .common import signature, detail, case_of, account_build
from ..env import Scratch
from ..world import World

QUERIES = [['q', 'is_dir', 'D', 'M'], ['q', 'exists', 'D', 'M'], ['q', 'list_dir', 'D', 'M'],
           ['q', 'walk', 'D', 'M'], ['q', 'is_dir', 'D/E', 'M'], ['q', 'list_dir', 'D/E', 'M'],
           ['q', 'is_file', 'D/x', 'M']]
EXT1 = ['absent', 'empty-dir', 'dir-with-file']
EXT2 = ['none', 'delete-D', 'create-D', 'plant-in-D', 'plant-in-E', 'delete-foreign']


def programs():
    """yield (name, program)"""
    # (D/A and D/B: sibling directories whose only common ancestor is D)
    targets = ['D/x', 'D/E/x', 'D/A/x']
    targets2 = ['D/y', 'D/E/y', 'D/B/y']
    for shape in ('seq', 'nested'):
        for t1 in targets:
            for t2 in targets2:
                for o1 in ('ok', 'fail'):
                    for o2 in ('ok', 'fail'):
                        for catch2 in (True, False):
                            if shape == 'seq' and not catch2:
                                continue
                            funcs = {}
                            inner_body = [['write', 'b2']] + ([['raise', 'B2']] if o2 == 'fail' else [])
                            funcs['B2'] = {'kind': 'bf', 'idx': 3, 'body': inner_body}
                            b1 = [['write', 'b1']]
                            if shape == 'nested':
                                b1 = [['bf', t2, 'B2', {'catch': catch2}]] + b1 + [['q', 'is_dir', 'D', 'M']]
                            if o1 == 'fail':
                                b1 = b1 + [['raise', 'B1']]
                            funcs['B1'] = {'kind': 'bf', 'idx': 2, 'body': b1}
                            sbody = [['bf', t1, 'B1', {'catch': True}]]
                            if shape == 'seq':
                                sbody.append(['bf', t2, 'B2', {'catch': True}])
                            sbody += QUERIES
                            funcs['S'] = {'kind': 'sb', 'idx': 1, 'body': sbody}
                            # a sibling cacheable operation that only observes the directories
                            funcs['T'] = {'kind': 'sb', 'idx': 4, 'body': [['q', 'is_dir', 'D', 'M'],
                                                                          ['q', 'list_dir', 'D', 'M'],
                                                                          ['q', 'is_dir', 'D/E', 'M'],
                                                                          ['q', 'walk', 'D', 'M']]}
                            root = [['sb', 'S', {'catch': True}], ['sb', 'T', {'catch': True}],
                                    ['q', 'exists', 'D', 'M']]
                            name = '%s|%s:%s|%s:%s|catch2=%s' % (shape, t1, o1, t2, o2, catch2)
                            yield name, {'funcs': funcs, 'roots': [root]}


def all_cases():
    return [(name, prog, e1, e2) for (name, prog) in programs() for e1 in EXT1 for e2 in EXT2]


def run_overlay_cases(sh, select, stride=1):
    cases = all_cases()
    mine = cases[sh.idx::sh.n][(sh.seed % stride)::stride]
    for name, program, e1, e2 in mine:
        if sh.time_left() <= 0:
            return False
        with Scratch('o') as sc:
            w = World(sc)
            w.ext_write('in0', b'input zero')
            if e1 == 'empty-dir':
                w.ext_mkdir('D')
            elif e1 == 'dir-with-file':
                w.ext_write('D/foreign', b'foreign')

            def judge(sr, phase):
                bad = False
                for d in sr.divs:
                    sh.count('div:' + d['kind'])
                    if select(d):
                        sh.violation(signature(d) + '|overlay:%s|%s' % (name.split('|')[0], phase),
                                     dict(detail(d), case=name, ext1=e1, ext2=e2), case_of(w, program))
                        bad = True
                return bad or bool(sr.divs)
            sr = w.build(program, program['roots'][0], {}, label=0)
            sh.evaluations += 1
            sh.count('overlay_cases')
            account_build(sh, sr)
            if judge(sr, 'first'):
                continue
            if e2 == 'delete-D':
                w.ext_delete('D')
            elif e2 == 'create-D':
                w.ext_mkdir('D')
            elif e2 == 'plant-in-D':
                w.ext_write('D/planted', b'planted')
            elif e2 == 'plant-in-E':
                w.ext_write('D/E/planted', b'planted')
            elif e2 == 'delete-foreign':
                if e1 != 'dir-with-file':
                    continue
                w.ext_delete('D/foreign')
            for rnd in range(2):
                sr2 = w.build(program, program['roots'][0], {}, label=0)
                sh.evaluations += 1
                account_build(sh, sr2)
                sh.nt(('overlay', name, e1, e2, rnd))
                if judge(sr2, 'second' if rnd == 0 else 'third'):
                    break
    return True
