"""C11 values cross the API by value (no aliasing with cache records)."""
import random

from .common import run_histories, signature, detail, case_of, account_build, handle_divs
from ..gen import GenCfg, rand_path
from ..values import rand_value
from .. import mutstmts  # noqa: F401  (registers statements)
from .. import env

CONFIG = {
    'level': 'exploration',
    'budget': {'quick': 30, 'thorough': 480},
    'rule': ('random programs decorated with in-place mutation statements on every value-carrying API edge: '
             'arguments inside the callee, arguments by the caller after the call, values returned by '
             'build_file/subbuild (fresh and served from the cache), the object a callee returned and kept a reference to (edited by the callee side after the call), list_dir lists, walk outer list / subdirectory '
             'lists (pruning) / subfile lists - each with append / remove / clear / nested edit; in the reference '
             'model every hand-out is a copy, so the statements are no-ops there: results, trees and the '
             'justified invocation set of this and of >= 2 later builds (with and without an external change that '
             'would reveal a corrupted observation, e.g. really deleting the name removed from a listing) must equal '
             'the model; evaluations = builds judged; distinct_nontrivial = distinct (edge, mutation) pairs '
             'executed x (program shape)'),
    'gates': ['mut:callee-retained-return', 'mut:return-value', 'mut:callee-args', 'mut:caller-args', 'mut:list_dir-result',
              'mut:walk-result', 'mutated_value_served_from_cache', 'reveal_deletions'],
}

KINDS = {'result', 'tree', 'extra_invocation', 'missing_invocation', 'query', 'reused_output_rewritten'}
CONTAINER_RETS = [[1, [2, 3]], {'k': [1, 2], 'j': {'a': 1}}, [['x'], {'y': [0]}], [0], {'a': [True]}]
CONTAINER_ARGS = [[[1, 2]], [{'k': [1]}], [[0], ['y']], [[[1]]]]


def select(d):
    return d['kind'] in KINDS


def decorate(rng, cfg, program):
    funcs = program['funcs']
    for name, f in funcs.items():
        body = f['body']
        if rng.random() < 0.7 and not any(s[0] == 'ret' for s in body):
            body.append(['ret', ['val', rng.choice(CONTAINER_RETS)]])
        if rng.random() < 0.5:
            body.insert(rng.randint(0, len(body)), ['x', 'mut_args', rng.choice(['append', 'remove', 'clear', 'edit', 'deep'])])
    bodies = [f['body'] for f in funcs.values()] + program['roots']
    kid = [0]

    def walk(body):
        i = 0
        while i < len(body):
            s = body[i]
            if s[0] in ('bf', 'sb'):
                o = s[3] if s[0] == 'bf' else s[2]
                if rng.random() < 0.7:
                    o['args'] = rng.choice(CONTAINER_ARGS)
                    o['kwargs'] = rng.choice([{}, {'k': [1, 2]}, {'j': {'a': [0]}}])
                if rng.random() < 0.35:
                    o['mut_after'] = rng.choice(['append', 'remove', 'clear', 'edit', 'deep'])
                if rng.random() < 0.3:
                    o['mut_retained'] = rng.choice(['append', 'remove', 'clear', 'edit', 'deep'])
                if rng.random() < 0.6:
                    kid[0] += 1
                    o['keep'] = 'v%d' % kid[0]
                    body.insert(i + 1, ['x', 'mut_ret', o['keep'],
                                        rng.choice(['append', 'remove', 'clear', 'edit', 'deep'])])
                    i += 1
            elif s[0] == 'q' and s[1] in ('list_dir', 'walk', 'walk_bu') and rng.random() < 0.8:
                if s[1] == 'list_dir':
                    body[i] = ['x', 'mut_q', 'list_dir', s[2], rng.choice(['remove', 'clear', 'append'])]
                else:
                    body[i] = ['x', 'mut_q', s[1], s[2], rng.choice(['prune', 'remove_file', 'append', 'outer', 'outer_append'])]
            elif s[0] == 'ifq':
                walk(s[3])
                walk(s[4])
            i += 1
    for b in bodies:
        walk(b)
    # make sure there are listing queries at all
    for b in bodies:
        if rng.random() < 0.5:
            b.insert(rng.randint(0, len(b)),
                     ['x', 'mut_q', rng.choice(['list_dir', 'walk']), rand_path(rng, cfg, 2, allow_root=True),
                      rng.choice(['remove', 'prune', 'clear', 'append', 'outer_append'])])
    return program


def after_build(sh, w, program, sr, ctx):
    for (edge, how, done) in getattr(sr.rctx, 'muts', []):
        if done:
            sh.count('mut:' + edge)
            sh.nt((edge, how))
    # a value that was mutated in an earlier build and is now served from the cache
    if sr.prev_record is not None and sr.stats.get('hits_top', 0) and getattr(sr.rctx, 'muts', None):
        sh.count('mutated_value_served_from_cache')
    rng = ctx['rng']
    removed = getattr(sr.rctx, 'removed_names', [])
    if sr.committed and removed and rng.random() < 0.5:
        # reveal: really delete a name that user code removed from a listing
        r = rng.choice(removed)
        if w.ext_delete(r):
            sh.count('reveal_deletions')
    return False


def run_shard(sh):
    import fbverif.checks.common as common
    orig = common.gen_program

    def gp(rng, cfg):
        return decorate(rng, cfg, orig(rng, cfg))
    common.gen_program = gp
    try:
        run_histories(sh, select=select, steps_range=(4, 7) if sh.tier == 'quick' else (5, 10),
                      nested_prob=0.1, fail_prob=0.05, versions_prob=0.05, clean_prob=0.03,
                      make_cfg=lambda rng: GenCfg(p_query=0.45, p_awkward=0.01,
                                                  query_kinds=['list_dir', 'walk', 'walk_bu', 'list_dir', 'walk',
                                                               'is_file', 'exists', 'read_text']),
                      after_build=lambda w, program, sr, ctx: after_build(sh, w, program, sr, ctx),
                      mut_weights={'write': 5, 'modify': 1, 'delete': 3, 'mkdir': 2, 'swap': 0.5,
                                   'tamper_output': 0.5, 'delete_output': 0.5})
    finally:
        common.gen_program = orig
