"""C09 thread-safety: concurrent use is equivalent to sequential use."""
import random
import sys
import threading
import time

from .common import signature, detail, case_of, account_build, nested_cache_rel
from ..env import Scratch
from ..world import World
from .. import sched, env

CONFIG = {
    'level': 'exploration',
    'budget': {'quick': 45, 'thorough': 900},
    'rule': ('scenarios from templates: T in {2,3} threads issue build_file (into shared NEW parent directories of depth 1-3, '
             'next to stale directories/outputs of a previous build, failing targets next to succeeding ones, nested '
             'build_file inside), subbuild and queries on disjoint inputs on the same builder; the real library runs '
             'under a baton scheduler (yield point = every source line of file_builder/*.py via sys.monitoring + every '
             'lock operation): non-preemptive baseline, ALL single pre-emptions (every yield point x every other '
             'thread x every start thread), sampled pairs of pre-emptions, PCT (d<=3) and random walks, plus '
             'free-running stress with real locks; oracle after every schedule: no deadlock, no exception that the '
             'sequential model does not raise, result/tree equal to the sequential reference model, an unchanged '
             'sequential rebuild invokes only what the model justifies, clean on that state leaves exactly the model tree '
             '(reveals createdDirs); directed observer races additionally with ALL pairs (worker pre-empted at its k-th '
             'lock/file-system operation, observer pre-empted at its j-th source line executed with no lock held: '
             'unlocked check-then-act on shared state; complete in the thorough tier, time-capped in quick); directed backup '
             'races (two threads each replace a foreign file / a stale output, the build fails or commits) with ALL single '
             'pre-emptions of either thread at a source line executed with no lock held; evaluations = schedules executed and judged; distinct_nontrivial = distinct switch '
             'sequences with >=1 pre-emption taken inside library code while another thread had an unfinished call'),
    'exhaustive_layer': 'single pre-emption at every lock operation and library file-system call x every other thread x every start thread, for each scenario whose layer was completed (single_layers_completed)',
    'gates': ['observer_race_schedules', 'observer_line_pair_runs', 'backup_race_runs', 'schedules', 'single_preemption_runs', 'single_layers_completed', 'line_preemption_runs', 'pair_runs', 'pct_runs', 'random_runs', 'stress_builds',
              'preemptions_taken', 'scenarios', 'clean_probes', 'rebuild_probes'],
    'assumptions': ['bounded: all single pre-emptions are enumerated for the scenarios visited; two pre-emptions, PCT '
                    'and random walks are samples; more than 3 threads only in free-running stress under the GIL'],
}

KINDS = {'result', 'tree', 'issue', 'rollback_tree', 'tmp_leftover', 'foreign_event', 'foreign_changed',
         'exception_identity_root', 'query'}
NEXT_KINDS = {'extra_invocation', 'result', 'tree', 'reused_output_rewritten', 'invoked_twice'}
CLEAN_KINDS = {'clean_tree', 'clean_result', 'foreign_event', 'foreign_changed'}


def gen_scenario(rng):
    T = rng.choice([2, 2, 3])
    parents = rng.sample(['new/sub', 'new', 'deep/a/b', 'new/sub2', 'deep/a', 'p'], rng.randint(1, 3))
    funcs = {
        'Fok': {'kind': 'bf', 'idx': 10, 'body': [['q', 'read_text', 'in0', 'M'], ['write', '']]},
        'Fh': {'kind': 'bf', 'idx': 11, 'body': [['q', 'read_binary', 'in1', 'H'], ['write', '']]},
        'Fb': {'kind': 'bf', 'idx': 12, 'body': [['raise', 'Fb']]},
        'Fa': {'kind': 'bf', 'idx': 13, 'body': [['write', ''], ['raise', 'Fa']]},
        'Fn': {'kind': 'bf', 'idx': 14, 'body': [['q', 'exists', 'in0', 'M']]},
        'Sq': {'kind': 'sb', 'idx': 15, 'body': [['q', 'read_text', 'in1', 'M'], ['q', 'is_file', 'in0', 'M']]},
    }
    threads = []
    for t in range(T):
        body = []
        for j in range(rng.randint(1, 2)):
            par = rng.choice(parents)
            r = rng.random()
            target = '%s/f%d_%d' % (par, t, j)
            if r < 0.45:
                body.append(['bf', target, rng.choice(['Fok', 'Fh']), {'catch': True, 'args': [t, j]}])
            elif r < 0.7:
                body.append(['bf', target, rng.choice(['Fb', 'Fa', 'Fn']), {'catch': rng.random() < 0.9, 'args': [t, j]}])
            elif r < 0.85:
                name = 'Fnest_%d_%d' % (t, j)
                npar = rng.choice(parents)
                inner = rng.choice(['Fok', 'Fb', 'Fa'])
                funcs[name] = {'kind': 'bf', 'idx': 5, 'body': [
                    ['write', ''], ['bf', '%s/n%d_%d' % (npar, t, j), inner, {'catch': True, 'args': [t]}]]}
                body.append(['bf', target, name, {'catch': True}])
            else:
                name = 'Snest_%d_%d' % (t, j)
                funcs[name] = {'kind': 'sb', 'idx': 5, 'body': [
                    ['q', 'read_text', 'in0', 'M'],
                    ['bf', '%s/s%d_%d' % (rng.choice(parents), t, j), rng.choice(['Fok', 'Fa']), {'catch': True}]]}
                body.append(['sb', name, {'catch': True, 'args': [t, j]}])
        if rng.random() < 0.3:
            body.insert(rng.randint(0, len(body)), ['sb', 'Sq', {'catch': True, 'args': [t]}])
        if rng.random() < 0.3:
            body.append(['q', rng.choice(['read_text', 'is_file', 'exists']), 'in%d' % rng.randint(0, 1), 'M'])
        threads.append(body)
    suffix = [['q', 'walk', '', 'M']] + [['q', 'list_dir', p, 'M'] for p in parents]
    prefix = []
    if rng.random() < 0.3:
        prefix = [['bf', parents[0] + '/pre', 'Fok', {'catch': True}]]
    if rng.random() < 0.25:
        # the build fails after the parallel part: every thread's backups must be restored
        suffix = suffix + [['raise', 'root']]
    root = prefix + [['par', threads]] + suffix
    # a different root for the previous build: leaves stale dirs/outputs in the same parents
    stale = [['bf', '%s/old%d' % (p, i), 'Fok', {'catch': True, 'args': [i]}] for i, p in enumerate(parents)]
    if rng.random() < 0.5:
        stale.append(['bf', parents[0] + '/f0_0', 'Fh', {'catch': True}])   # same path, other function
    program = {'funcs': funcs, 'roots': [root, stale]}
    prior = rng.choice(['none', 'same', 'stale', 'stale+foreign', 'foreign', 'foreign-at-targets',
                        'same+foreign-at-targets'])
    return program, prior, T, parents


def setup_world(w, program, prior, parents, rng):
    w.ext_write('in0', b'input zero')
    w.ext_write('in1', b'input one')
    if prior in ('foreign', 'stale+foreign'):
        w.ext_write(parents[0] + '/zz_foreign', b'foreign')
    if prior.startswith('same'):
        body = [st for st in program['roots'][0] if st[0] != 'raise']
        sr = w.build(program, body, {}, label='prior', threads=False)
        if sr.divs:
            return False
    if 'foreign-at-targets' in prior:
        # every thread overwrites a foreign file (or a tampered output): concurrent backups
        from ..prog import reachable_targets
        for i, t in enumerate(sorted(set(reachable_targets(program, program['roots'][0])))):
            w.ext_write(t, ('foreign at target %d' % i).encode())
        return True
    if prior == 'same':
        return True
    if prior in ('stale', 'stale+foreign'):
        sr = w.build(program, program['roots'][1], {}, label=1, threads=False)
        return not sr.divs
    return True


def run_observer_races(sh, rng):
    """directed: one thread builds a file below a NEW directory D and fails (or succeeds), the other thread only
    LOOKS at D (is_dir / exists / list_dir / walk - answers not judged: they legitimately depend on the
    interleaving); afterwards the root looks at D, builds another file below D and the usual probes follow
    (next build, clean).  Looking must not change what exists.  ALL pairs of pre-emptions at lock/file-system
    granularity in the thorough tier (sampled in quick), all single ones always."""
    Fa = {'kind': 'bf', 'idx': 13, 'body': [['write', ''], ['raise', 'Fa']]}
    Fok = {'kind': 'bf', 'idx': 10, 'body': [['q', 'read_text', 'in0', 'M'], ['write', '']]}
    complete = True
    # the line-pair layer may take a third of a quick budget (it is complete in the thorough tier)
    t_end = time.time() + (0.33 * sh.budget_s if sh.tier == 'quick' else 0.5 * sh.budget_s)
    for worker_fails in (True, False):
        for depth in (1, 2):
            D = 'D' if depth == 1 else 'D/E'
            looks = [['x', 'racyq', k, p] for p in ([D] if depth == 1 else ['D', D])
                     for k in ('is_dir', 'exists', 'list_dir', 'walk')]
            root = [['par', [[['bf', D + '/a', 'Fa' if worker_fails else 'Fok', {'catch': True}]], looks]],
                    ['q', 'is_dir', D, 'M'], ['q', 'walk', '', 'M'],
                    ['bf', D + '/b', 'Fok', {'catch': True}], ['q', 'list_dir', D, 'M']]
            program = {'funcs': {'Fa': Fa, 'Fok': Fok}, 'roots': [root, []]}
            with Scratch('r') as sc:
                w = World(sc)
                w.ext_write('in0', b'input zero')
                tok = w.save()
                try:
                    s0, ok = run_schedule(sh, w, tok, program, {'kind': 'none', 'grain': 'ops'}, 'observer-baseline')
                    if not ok:
                        continue
                    n = s0.step
                    strategies = [{'kind': 'preempt', 'at': {k: 0}, 'first': f, 'grain': 'ops'}
                                  for f in (0, 1) for k in range(1, n + 1)]
                    pairs = [{'kind': 'preempt', 'at': {k1: 0, k2: 0}, 'first': f, 'grain': 'ops'}
                             for f in (0, 1) for k1 in range(1, n + 1) for k2 in range(k1 + 1, n + 2)]
                    if sh.tier == 'quick':
                        pairs = rng.sample(pairs, min(len(pairs), 160))
                    for st in (strategies + pairs if sh.idx % 4 == 3 else []):
                        if sh.time_left() <= 0:
                            return
                        run_schedule(sh, w, tok, program, st, 'observer', rebuild_probe=rng.random() < 0.3)
                        sh.count('observer_race_schedules')
                    if not observer_unlocked_line_pairs(sh, rng, w, tok, program, t_end):
                        complete = False
                finally:
                    w.discard(tok)
    if complete:
        sh.count('observer_line_pair_layers_completed')


def run_backup_races(sh, rng):
    """directed: two threads each replace a file that is in the way (a foreign file at the target, or a stale output
    of the previous build) - both move a file to the backup area at the same time - and the build then fails (or
    commits).  ALL single pre-emptions of either thread at a source line executed with no lock held (divided among
    the shards): an index / slot / directory of the backup area that is reserved without the lock is handed out
    twice, and the rollback restores one file less (or the wrong bytes)."""
    Fok = {'kind': 'bf', 'idx': 10, 'body': [['q', 'read_text', 'in0', 'M'], ['write', '']]}
    t_end = time.time() + 0.12 * sh.budget_s
    complete = True
    for fails in (True, False):
        for prior in ('foreign-at-targets', 'stale-outputs'):
            targets = ['bk/x0', 'bk/x1'] if prior == 'foreign-at-targets' else ['bk/y0', 'bk/y1']
            threads = [[['bf', t, 'Fok', {'catch': True, 'args': [1]}]] for t in targets]
            root = [['par', threads], ['q', 'walk', '', 'M']] + ([['raise', 'root']] if fails else [])
            old = [['bf', t, 'Fok', {'catch': True, 'args': [0]}] for t in targets]
            program = {'funcs': {'Fok': Fok}, 'roots': [root, old]}
            with Scratch('b') as sc:
                w = World(sc)
                w.ext_write('in0', b'input zero')
                if prior == 'foreign-at-targets':
                    for i, t in enumerate(targets):
                        w.ext_write(t, ('foreign file %d in the way' % i).encode())
                else:
                    if w.build(program, old, {}, label=1, threads=False).divs:
                        sh.count('scenario_setup_diverged')
                        continue
                tok = w.save()
                try:
                    for first in (0, 1):
                        s0, ok = run_schedule(sh, w, tok, program, {'kind': 'preempt_unlocked', 'j': 10 ** 9,
                                                                    'first': first}, 'backup-race-probe',
                                              rebuild_probe=False)
                        if not ok:
                            complete = False
                            continue
                        m = getattr(s0, 'pu_lines', 0)
                        sh.count('backup_race_unlocked_lines', m if sh.idx == 0 else 0)
                        for j in range(1 + sh.idx % sh.n, m + 1, sh.n):
                            if sh.time_left() <= 0 or time.time() > t_end:
                                complete = False
                                break
                            run_schedule(sh, w, tok, program, {'kind': 'preempt_unlocked', 'j': j, 'first': first},
                                         'backup-race', rebuild_probe=False)
                            sh.count('backup_race_runs')
                finally:
                    w.discard(tok)
    if complete:
        sh.count('backup_race_layers_completed')


def observer_unlocked_line_pairs(sh, rng, w, tok, program, t_end):
    """directed pairs at SOURCE-LINE granularity: the worker is pre-empted at its k1-th lock/file-system operation,
    the observer runs and is pre-empted at its j-th source line executed while it holds no lock (between the check
    and the act of an unlocked check-then-act on shared state), the worker finishes, the observer carries on.
    All (k1, j); the (k1) space is divided among the shards; k1 values after which the observer takes a path not
    seen before come first.  Returns False if the time share ran out before the layer was complete."""
    probes = []
    k1 = 0
    while True:
        k1 += 1
        s, ok = run_schedule(sh, w, tok, program, {'kind': 'preempt2', 'k1': k1, 'j': 10 ** 9, 'first': 0},
                             'observer-line-probe', rebuild_probe=False)
        if getattr(s, 'p2_ops', 0) < k1 or k1 > 400:
            break
        if ok:
            probes.append((k1, getattr(s, 'p2_lines', 0), hash(tuple(getattr(s, 'p2_trace', ())))))
    sh.count('observer_line_probe_runs', len(probes))
    mine = [p for i, p in enumerate(probes) if i % sh.n == sh.idx % sh.n]
    # representatives (first k1 of every distinct observer path) first, in every shard
    seen = set()
    reps = []
    for p in probes:
        if p[2] not in seen:
            seen.add(p[2])
            reps.append(p)
    reps = [p for i, p in enumerate(reps) if (i + 7) % sh.n == sh.idx % sh.n]
    for k1, m, _h in reps + [p for p in mine if p not in reps]:
        for j in range(1, m + 1):
            if sh.time_left() <= 0 or time.time() > t_end:
                return False
            run_schedule(sh, w, tok, program, {'kind': 'preempt2', 'k1': k1, 'j': j, 'first': 0},
                         'observer-line-pair', rebuild_probe=False)
            sh.count('observer_line_pair_runs')
    return True


def run_schedule(sh, w, tok, program, strategy, tag, rebuild_probe=True):
    """one scheduled build + probes; returns the scheduler"""
    w.restore(tok, keep=True)
    s = sched.Scheduler(strategy)
    opts = {'schedule': {k: (v if k != 'at' else {str(a): b for a, b in v.items()}) for k, v in strategy.items()}}
    sr = w.build(program, program['roots'][0], {}, label=0, hooks={'spawn': s.spawn, 'fs_yield': s.fs_yield},
                 step_opts=opts)
    sh.evaluations += 1
    sh.count('schedules')
    sh.count('preemptions_taken', s.preemptions)
    account_build(sh, sr)
    case = case_of(w, program)
    if s.timed_out:
        sh.inconclusive.append('scheduler watchdog fired (%s)' % tag)
        return s, False
    if s.deadlock:
        sh.violation('deadlock|' + tag, {'info': s.deadlock_info}, case)
        return s, False
    if getattr(s, 'double_lock', None):
        sh.violation('lock_created_twice_for_one_object|%s' % s.double_lock['class'], dict(s.double_lock), case)
        return s, False
    if s.inside_lib_preemptions:
        sh.nt(s.signature())
    bad = False
    for d in sr.divs:
        sh.count('div:' + d['kind'])
        if d['kind'] in KINDS:
            sh.violation(signature(d) + '|sched', dict(detail(d), switches=s.switches[-6:]), case)
            bad = True
    if bad or sr.divs:
        return s, False
    # unchanged sequential rebuild: only what a sequential build would re-execute
    if rebuild_probe:
        sr2 = w.build(program, program['roots'][0], {}, label=0, threads=False)
        sh.count('rebuild_probes')
        for d in sr2.divs:
            sh.count('div_next:' + d['kind'])
            if d['kind'] in NEXT_KINDS:
                sh.violation('after_threads|' + signature(d), dict(detail(d), switches=s.switches[-6:]),
                             case_of(w, program))
                bad = True
        if bad or sr2.divs:
            return s, False
    c = w.clean()
    sh.count('clean_probes')
    for d in c.divs:
        if d['kind'] in CLEAN_KINDS:
            sh.violation('clean_after_threads|' + signature(d), dict(detail(d), switches=s.switches[-6:]),
                         case_of(w, program))
            bad = True
    return s, not bad


def stress(sh, rng):
    """free-running stress with real locks (no scheduler): many threads, tiny switch interval"""
    old = sys.getswitchinterval()
    sys.setswitchinterval(1e-6)
    try:
        T = rng.choice([4, 8, 12, 16])
        nfiles = rng.randint(12, 40)
        funcs = {'Fok': {'kind': 'bf', 'idx': 10, 'body': [['q', 'read_text', 'in0', 'M'], ['write', '']]},
                 'Fa': {'kind': 'bf', 'idx': 13, 'body': [['write', ''], ['raise', 'Fa']]},
                 'Fb': {'kind': 'bf', 'idx': 12, 'body': [['raise', 'Fb']]}}
        threads = [[] for _ in range(T)]
        for i in range(nfiles):
            par = rng.choice(['new/sub', 'new', 'deep/a/b', 'new/x/y', 'q'])
            fn = 'Fok' if rng.random() < 0.8 else rng.choice(['Fa', 'Fb'])
            threads[i % T].append(['bf', '%s/f%d' % (par, i), fn, {'catch': True, 'args': [i]}])
        program = {'funcs': funcs, 'roots': [[['par', threads], ['q', 'walk', '', 'M']]]}
        with Scratch('s') as sc:
            w = World(sc)
            w.ext_write('in0', b'input zero')
            for rnd in range(2):
                done = threading.Event()
                res = {}

                def go():
                    res['sr'] = w.build(program, program['roots'][0], {}, label=0)
                    done.set()
                th = threading.Thread(target=go, daemon=True)
                th.start()
                if not done.wait(60):
                    import faulthandler
                    sh.inconclusive.append('stress watchdog fired (possible deadlock with real locks)')
                    return
                sr = res['sr']
                sh.evaluations += 1
                sh.count('stress_builds')
                account_build(sh, sr)
                for d in sr.divs:
                    if d['kind'] in KINDS | ({'extra_invocation'} if rnd else set()):
                        sh.violation(signature(d) + '|stress', detail(d), case_of(w, program))
                        return
                if sr.divs:
                    return
            c = w.clean()
            for d in c.divs:
                if d['kind'] in CLEAN_KINDS:
                    sh.violation('clean_after_threads|' + signature(d) + '|stress', detail(d), case_of(w, program))
    finally:
        sys.setswitchinterval(old)


def run_shard(sh):
    rng = random.Random((sh.seed * 1000003 + sh.idx) & 0xffffffff)
    ncode = sched.install()
    sh.count('instrumented_code_objects', ncode if sh.idx == 0 else 0)
    t_stress = 0.12 * sh.budget_s
    t0 = time.time()
    while time.time() - t0 < t_stress:
        stress(sh, rng)
    complete_layers = 0
    run_observer_races(sh, rng)
    run_backup_races(sh, rng)
    while sh.time_left() > 0:
        program, prior, T, parents = gen_scenario(rng)
        with Scratch('t') as sc:
            w = World(sc, nested_cache_rel(rng, program) if rng.random() < 0.15 else 'cache.gz')
            if not setup_world(w, program, prior, parents, rng):
                sh.count('scenario_setup_diverged')
                continue
            tok = w.save()
            try:
                s0, ok = run_schedule(sh, w, tok, program, {'kind': 'none', 'grain': 'ops'}, 'baseline')
                sh.count('scenarios')
                if not ok:
                    continue
                n_ops = s0.step
                sh.count('yield_points_ops', n_ops)
                # a few samples of every strategy first, so that every strategy is exercised
                # in every scenario even when the machine is slow
                for _ in range(3):
                    k1, k2 = sorted(rng.sample(range(1, n_ops + 2), 2))
                    run_schedule(sh, w, tok, program,
                                 {'kind': 'preempt', 'at': {k1: rng.randrange(T), k2: rng.randrange(T)},
                                  'first': rng.randrange(T), 'grain': 'ops'}, 'pair', rebuild_probe=False)
                    sh.count('pair_runs')
                    run_schedule(sh, w, tok, program, {'kind': 'pct', 'd': rng.randint(1, 3), 'n': n_ops * 4,
                                                       'seed': rng.randrange(10 ** 9)}, 'pct', rebuild_probe=False)
                    sh.count('pct_runs')
                    run_schedule(sh, w, tok, program, {'kind': 'random', 'p': rng.choice([0.01, 0.03, 0.1]),
                                                       'seed': rng.randrange(10 ** 9)}, 'random', rebuild_probe=False)
                    sh.count('random_runs')
                    run_schedule(sh, w, tok, program,
                                 {'kind': 'preempt', 'at': {rng.randint(1, n_ops * 4): rng.randrange(T)},
                                  'first': rng.randrange(T)}, 'single-line', rebuild_probe=False)
                    sh.count('line_preemption_runs')
                # ---- all single pre-emptions at every lock operation and file-system call
                #      of the library (x other thread x start thread)
                complete = True
                for first in range(T):
                    for k in range(1, n_ops + 1):
                        for tgt in range(T - 1):
                            if sh.time_left() <= 0:
                                complete = False
                                break
                            s, ok = run_schedule(sh, w, tok, program,
                                                 {'kind': 'preempt', 'at': {k: tgt}, 'first': first, 'grain': 'ops'},
                                                 'single', rebuild_probe=rng.random() < 0.3)
                            sh.count('single_preemption_runs')
                        if not complete:
                            break
                    if not complete:
                        break
                if complete:
                    complete_layers += 1
                    sh.count('single_layers_completed')
                # ---- source-line granularity: sampled single pre-emptions
                s1, ok = run_schedule(sh, w, tok, program, {'kind': 'none', 'grain': 'lines'}, 'baseline-lines')
                n = s1.step
                sh.count('yield_points_lines', n)
                for _ in range(60 if sh.tier == 'quick' else 1500):
                    if sh.time_left() <= 0 or not ok:
                        break
                    run_schedule(sh, w, tok, program,
                                 {'kind': 'preempt', 'at': {rng.randint(1, n): rng.randrange(T)},
                                  'first': rng.randrange(T)}, 'single-line', rebuild_probe=rng.random() < 0.3)
                    sh.count('line_preemption_runs')
                # ---- sampled pairs, PCT, random walk
                for _ in range(60 if sh.tier == 'quick' else 2000):
                    if sh.time_left() <= 0:
                        break
                    k1, k2 = sorted(rng.sample(range(1, n_ops + 2), 2))
                    if rng.random() < 0.35:
                        # first thread pre-empted at a lock/file-system operation, the thread taking over at
                        # one of its source lines executed without any lock held
                        run_schedule(sh, w, tok, program,
                                     {'kind': 'preempt2', 'k1': rng.randint(1, max(1, n_ops // T + 4)),
                                      'j': rng.randint(1, 250), 'first': rng.randrange(T)}, 'line-pair',
                                     rebuild_probe=rng.random() < 0.3)
                        sh.count('unlocked_line_pair_runs')
                        continue
                    run_schedule(sh, w, tok, program,
                                 {'kind': 'preempt', 'at': {k1: rng.randrange(T), k2: rng.randrange(T)},
                                  'first': rng.randrange(T), 'grain': rng.choice(['ops', 'lines'])}, 'pair',
                                 rebuild_probe=rng.random() < 0.3)
                    sh.count('pair_runs')
                for _ in range(30 if sh.tier == 'quick' else 600):
                    if sh.time_left() <= 0:
                        break
                    run_schedule(sh, w, tok, program, {'kind': 'pct', 'd': rng.randint(1, 3), 'n': n,
                                                       'seed': rng.randrange(10 ** 9)}, 'pct')
                    sh.count('pct_runs')
                for _ in range(20 if sh.tier == 'quick' else 300):
                    if sh.time_left() <= 0:
                        break
                    run_schedule(sh, w, tok, program, {'kind': 'random', 'p': rng.choice([0.01, 0.03, 0.1]),
                                                       'seed': rng.randrange(10 ** 9)}, 'random')
                    sh.count('random_runs')
                if len(sh.samples) < 2:
                    sh.sample({'program': program, 'prior': prior, 'threads': T, 'yield_points': n,
                               'yield_points_ops': n_ops, 'baseline_switches': s0.switches[:6]})
            finally:
                w.discard(tok)
    sh.exhaustive = complete_layers > 0
