"""Directed "path ladder" matrix shared by C01/C02/C03/C10: one build makes build_file calls
at the three rungs of one path - P, P/q, P/q/r - in every order, each call succeeding or failing
(caught), so that a rung is in turn a file, a directory created for a deeper target, a directory
that was virtually removed again after a failure, and a file built where such a directory was
(directory -> file inside one build).  P is absent / a foreign file / a foreign directory holding a
file / the output of a previous build / the parent chain of a previous output (P/q/old) before the
build; the root function then returns or raises (rollback).  A committed build is followed by an
unchanged rebuild.  Random programs reach these orders only rarely."""
import itertools

from .common import signature, detail, case_of, account_build
from ..env import Scratch
from ..world import World

RUNGS = ['P', 'P/q', 'P/q/r']
PRE = ['absent', 'foreign-file', 'foreign-dir', 'prior-output', 'prior-chain']


def all_cases():
    out = []
    for order in itertools.permutations(range(3)):
        for outcomes in itertools.product(('ok', 'fail'), repeat=3):
            for pre in PRE:
                for root_raises in (False, True):
                    out.append((order, outcomes, pre, root_raises))
    return out


def program_for(order, outcomes, root_raises):
    funcs = {'OK': {'kind': 'bf', 'idx': 5, 'body': [['q', 'read_text', 'in0', 'M'], ['write', 'ok']]},
             'BAD': {'kind': 'bf', 'idx': 6, 'body': [['write', 'bad'], ['q', 'is_dir', 'P', 'M'], ['raise', 'BAD']]},
             'G': {'kind': 'bf', 'idx': 7, 'body': [['write', 'g']]}}
    body = []
    for i in order:
        body.append(['bf', RUNGS[i], 'OK' if outcomes[i] == 'ok' else 'BAD', {'catch': True, 'args': [i]}])
        body.append(['q', 'is_dir', 'P', 'M'])
    body += [['q', 'walk', '', 'M'], ['q', 'is_file', 'P', 'M'], ['q', 'is_dir', 'P/q', 'M'],
             ['q', 'exists', 'P/q/r', 'M']]
    if root_raises:
        body.append(['raise', 'root'])
    prior_out = [['bf', 'P', 'G', {'catch': False}]]
    prior_chain = [['bf', 'P/q/old', 'G', {'catch': False}]]
    return {'funcs': funcs, 'roots': [body, prior_out, prior_chain]}


def run_ladder_cases(sh, select, stride=1):
    cases = all_cases()
    mine = cases[sh.idx::sh.n][(sh.seed % stride)::stride]
    for order, outcomes, pre, root_raises in mine:
        if sh.time_left() <= 0:
            return False
        program = program_for(order, outcomes, root_raises)
        name = 'order=%s|%s|pre=%s|root_raises=%s' % (''.join(map(str, order)), ','.join(outcomes), pre, root_raises)
        with Scratch('L') as sc:
            w = World(sc)
            w.ext_write('in0', b'input zero')
            w.ext_write('keep/foreign', b'unrelated foreign file')

            def judge(sr, phase):
                bad = False
                for d in sr.divs:
                    sh.count('div:' + d['kind'])
                    if select(d):
                        sh.violation(signature(d) + '|ladder|%s' % phase, dict(detail(d), case=name),
                                     case_of(w, program))
                        bad = True
                return bad or bool(sr.divs)
            if pre == 'foreign-file':
                w.ext_write('P', b'foreign file at the first rung')
            elif pre == 'foreign-dir':
                w.ext_write('P/foreign', b'foreign content')
            elif pre in ('prior-output', 'prior-chain'):
                sr0 = w.build(program, program['roots'][1 if pre == 'prior-output' else 2], {}, label=1)
                if judge(sr0, 'prior'):
                    continue
            sr = w.build(program, program['roots'][0], {}, label=0)
            sh.evaluations += 1
            sh.count('ladder_cases')
            sh.count('ladder_rolled_back' if root_raises else 'ladder_committed')
            account_build(sh, sr)
            sh.nt(('ladder', order, outcomes, pre, root_raises))
            if judge(sr, 'main'):
                continue
            # what the next build does: after a commit an unchanged rebuild, after a rollback the
            # same build without the failure
            nxt = program['roots'][0][:-1] if root_raises else program['roots'][0]
            sr2 = w.build(program, nxt, {}, label=0)
            sh.evaluations += 1
            account_build(sh, sr2)
            if judge(sr2, 'next'):
                continue
            c = w.clean()
            judge(c, 'clean')
    return True


UNREP = ['bad\0name', 'd/bad\0dir/x', 'sur\ud800', 'd/sur\ud800dir/x']


def run_unrepresentable_cases(sh, select):
    """a build_file target the OS layer of Python cannot represent (embedded NUL, lone surrogate) next to
    ordinary work: a foreign file overwritten, a previous output rebuilt; the failing call is caught or
    propagates (rollback: everything is back, C02/C03); then the next build and clean"""
    for name in UNREP:
        for catch in (True, False):
            for with_prior in (False, True):
                funcs = {'OK': {'kind': 'bf', 'idx': 5, 'body': [['q', 'read_text', 'in0', 'M'], ['write', 'ok']]}}
                main = [['bf', 'foreign', 'OK', {'catch': False}], ['bf', 'o/x', 'OK', {'catch': False}],
                        ['bf', name, 'OK', {'catch': catch}], ['q', 'walk', '', 'M']]
                prior = [['bf', 'o/x', 'OK', {'catch': False, 'args': [1]}]]
                program = {'funcs': funcs, 'roots': [main, prior, main[:2] + main[3:]]}
                with Scratch('U') as sc:
                    w = World(sc)
                    w.ext_write('in0', b'input zero')
                    w.ext_write('foreign', b'a foreign file that the build overwrites')
                    w.ext_write('keep/foreign', b'unrelated foreign file')

                    def judge(sr, phase):
                        bad = False
                        for d in sr.divs:
                            sh.count('div:' + d['kind'])
                            if select(d):
                                sh.violation(signature(d) + '|unrepresentable-target|%s' % phase,
                                             dict(detail(d), name=repr(name), catch=catch), case_of(w, program))
                                bad = True
                        return bad or bool(sr.divs)
                    if with_prior:
                        if judge(w.build(program, program['roots'][1], {}, label=1), 'prior'):
                            continue
                    sr = w.build(program, program['roots'][0], {}, label=0)
                    sh.evaluations += 1
                    sh.count('unrepresentable_target_cases')
                    account_build(sh, sr)
                    sh.nt(('unrep', name, catch, with_prior))
                    if judge(sr, 'main'):
                        continue
                    sr2 = w.build(program, program['roots'][2], {}, label=2)
                    sh.evaluations += 1
                    if judge(sr2, 'next'):
                        continue
                    judge(w.clean(), 'clean')
