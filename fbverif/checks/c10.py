"""C10 build_file contract: output appears atomically, failure leaves nothing."""
import itertools
import os
import random

from .common import FAULT_ERRNOS, signature, detail, case_of, account_build
from ..env import Scratch
from ..world import World
from ..replay import build_kwargs
from .. import env

CONFIG = {
    'level': 'fault_enumeration',
    'budget': {'quick': 40, 'thorough': 600},
    'rule': ('full product, enumerated (split over shards): target depth 1-3 (4 sampled) x prior state of every ancestor '
             '{absent, foreign dir, foreign dir with content, stale created dir, stale dir holding a foreign file, '
             'foreign file, stale output file, 255-byte name, 256-byte name, a name with an embedded NUL} x prior state of the target {absent, '
             'foreign file, stale output of another function, cached output of the same function, stale dir, stale dir '
             'with foreign content, foreign dir, 256-byte own name} x failure mode {ok, raise before write, raise after write, no create, '
             'non-JSON return, non-sanitized JSON return} x {caught, uncaught} x an injected OSError at each os.mkdir / '
             'os.rename the call makes; + nested-call family; + hard argument values (nesting 300-950 levels, 200k-element list, 2 MB string: direct assertions of the contract); + exception-class family (the exception leaving the user function: 16 builtin classes incl. the '
             'library\'s own failure vocabulary, and the documented OSError of an uncaught builder query, x before/after the write x caught/propagating x build_file/subbuild: same object out); monitors: path and absence of the target seen by the function, parents present, '
             'identity of the propagated exception, normalised return value, virtual view right after the call '
             '(queries on the target and every ancestor), on-disk tree at the end of the build, rollback state if '
             'uncaught - all against the reference model in which a faulted call is a setup failure; evaluations = '
             'build_file calls judged; distinct_nontrivial = distinct (ancestor states, target state, mode, caught, '
             'fault position class)'),
    'exhaustive_layer': 'depth<=3 product of ancestor states x target states x modes x caught, incl. one fault run per mkdir/rename event',
    'gates': ['deep_value_cases', 'prefix_sibling_combos', 'exc_class_cases', 'nested_cases', 'mode:swallow', 'combos', 'fault_runs', 'fault_mkdir', 'fault_rename', 'mode:ok', 'mode:raise_before',
              'mode:raise_after', 'mode:nocreate', 'mode:nonjson', 'setup_failures', 'caught', 'uncaught'],
}

ANC = ['absent', 'fdir', 'fdirc', 'sdir', 'sdirf', 'ffile', 'sfile', 'n255', 'n256', 'nul']
TGT = ['absent', 'ffile', 'sfile_other', 'sfile_same', 'sdir', 'sdirf', 'fdir', 'n256name']
MODES = ['ok', 'raise_before', 'raise_after', 'nocreate', 'nonjson', 'tuple', 'swallow']
KINDS = {'result', 'tree', 'query', 'issue', 'rollback_tree', 'exception_identity_root', 'tmp_leftover',
         'foreign_event', 'foreign_changed'}


def anc_vectors(depth):
    """state vectors for the ancestors at levels 1..depth-1 respecting nesting constraints"""
    if depth == 1:
        return [()]
    out = []

    def rec(prefix):
        if len(prefix) == depth - 1:
            out.append(tuple(prefix))
            return
        if prefix and prefix[-1] in ('absent', 'n255'):
            # nothing exists below an absent entry; the NAME of the next level may still be one that can
            # (255 bytes) or cannot (256 bytes, embedded NUL) be created
            for s in ('absent', 'n255', 'n256', 'nul'):
                rec(prefix + [s])
            return
        if prefix and prefix[-1] in ('n256', 'nul', 'ffile', 'sfile'):
            # nothing can exist or be created below a file or an impossible name
            rec(prefix + ['absent'])
            return
        for s in ANC:
            rec(prefix + [s])
    rec([])
    return out


def name_for(state, i):
    if state == 'n255':
        return 'x' * 255
    if state == 'n256':
        return 'y' * 256
    if state == 'nul':
        return 'n\0x'       # a name the OS layer cannot represent: os.mkdir raises ValueError, not OSError
    return 'abc'[i % 3]


def build_case(anc, tgt, mode, catch, sibling=False):
    """returns (setup_pre, prior_program_body, setup_post, program, target_rel)
    sibling: a reused output of the previous build lives in a directory whose name has the first
    path component as a proper string prefix (a / a.old): both directories sit in the same removal
    lists, and the longer-named one can legitimately not be removed"""
    comps = [name_for(s, i) for i, s in enumerate(anc)]
    paths = ['/'.join(comps[:i + 1]) for i in range(len(comps))]
    # 'n256name': the target's own name is one byte too long for the file system, so the
    # function cannot create it; with mode 'swallow' the function ignores its write error
    target = '/'.join(comps + ['t' * 256 if tgt == 'n256name' else 't'])
    pre = []      # external steps before the prior build
    prior = []    # bf statements of the prior build
    post = []     # external steps after the prior build
    for p, s in zip(paths, anc):
        if s in ('fdir', 'fdirc'):
            pre.append(('mk', p))
            if s == 'fdirc':
                pre.append(('w', p + '/zz'))
        elif s in ('sdir', 'sdirf'):
            prior.append(['bf', p + '/old', 'G', {'catch': False}])
            if s == 'sdirf':
                post.append(('w', p + '/zz'))
        elif s == 'ffile':
            pre.append(('w', p))
        elif s == 'sfile':
            prior.append(['bf', p, 'G', {'catch': False}])
    parent_blocked = any(s in ('absent', 'n255', 'n256', 'nul', 'ffile', 'sfile') for s in anc)
    if not parent_blocked:
        if tgt == 'ffile':
            post.append(('w', target))
        elif tgt == 'sfile_other':
            prior.append(['bf', target, 'G', {'catch': False}])
        elif tgt == 'sfile_same':
            prior.append(['bf', target, 'F', {'catch': True}])
        elif tgt in ('sdir', 'sdirf'):
            prior.append(['bf', target + '/old', 'G', {'catch': False}])
            if tgt == 'sdirf':
                post.append(('w', target + '/zz'))
        elif tgt == 'fdir':
            post.append(('mk', target))
    fbody = {'ok': [['q', 'exists', target, 'M'], ['write', ''], ['q', 'is_file', target, 'M']],
             'raise_before': [['raise', 'F'], ['write', '']],
             'raise_after': [['write', ''], ['q', 'exists', target, 'M'], ['raise', 'F']],
             'nocreate': [['q', 'is_dir', paths[-1] if paths else '', 'M']],
             'nonjson': [['write', ''], ['ret', 'nonjson']],
             'tuple': [['write', ''], ['ret', 'tuple']],
             'swallow': [['q', 'exists', 'in0', 'M'], ['write', '', {'swallow': True}],
                         ['q', 'is_dir', paths[-1] if paths else '', 'M']]}[mode]
    funcs = {'F': {'kind': 'bf', 'idx': 1, 'body': fbody},
             'G': {'kind': 'bf', 'idx': 2, 'body': [['write', 'old']]}}
    probes = [['q', 'exists', target, 'M'], ['q', 'is_file', target, 'M'], ['q', 'read_binary', target, 'H']]
    for p in paths:
        probes += [['q', 'is_dir', p, 'M'], ['q', 'exists', p, 'M'], ['q', 'list_dir', p, 'M']]
    probes += [['q', 'walk', '', 'M']]
    # what list_dir/read answer for a path the OS layer cannot represent is not specified (ValueError from
    # whichever os function meets it): only the boolean queries are made on such paths
    probes = [q for q in probes if '\0' not in q[2] or q[1] in ('exists', 'is_file', 'is_dir')]
    main = [['q', 'exists', target, 'M'], ['bf', target, 'F', {'catch': catch}]] + probes
    if sibling and comps and len(comps[0]) < 200:
        keep = ['bf', comps[0] + '.old/keep', 'G', {'catch': False}]
        prior = [list(keep)] + prior
        main = [list(keep)] + main
    program = {'funcs': funcs, 'roots': [prior, main]}
    return pre, post, program, target, bool(prior)


def apply_ext(w, steps, n=[0]):
    for st in steps:
        n[0] += 1
        if st[0] == 'mk':
            w.ext_mkdir(st[1])
        elif st[0] == 'w':
            w.ext_write(st[1], ('foreign%d' % n[0]).encode())


def judge(sh, w, program, sr, tag):
    bad = False
    for d in sr.divs:
        sh.count('div:' + d['kind'])
        if d['kind'] in KINDS:
            sh.violation(signature(d) + '|' + tag, detail(d), case_of(w, program))
            bad = True
    return bad


def run_combo(sh, anc, tgt, mode, catch, rng, fault_all=True):
    sibling = rng.random() < 0.4
    pre, post, program, target, has_prior = build_case(anc, tgt, mode, catch, sibling)
    if sibling:
        sh.count('prefix_sibling_combos')
    with Scratch('b') as sc:
        w = World(sc, 'k/cache.gz' if rng.random() < 0.2 else 'cache.gz')
        apply_ext(w, pre)
        if has_prior:
            sr0 = w.build(program, program['roots'][0], {}, label=0)
            if sr0.divs or not sr0.committed:
                if judge(sh, w, program, sr0, 'prior-build'):
                    return
                sh.count('prior_build_unusable')
                return
        apply_ext(w, post)
        tok = w.save()
        try:
            sr = w.build(program, program['roots'][1], {}, label=1)
            sh.evaluations += 1
            sh.count('combos')
            sh.count('mode:' + mode)
            sh.count('caught' if catch else 'uncaught')
            account_build(sh, sr)
            fclass = 'none'
            sh.nt((anc, tgt, mode, catch, fclass))
            tag = 'mode=%s|catch=%s' % (mode, catch)
            if judge(sh, w, program, sr, tag):
                return
            if len(sh.samples) < 2 and len(anc) >= 2 and mode != 'ok':
                sh.sample({'ancestors': list(anc), 'target_state': tgt, 'mode': mode, 'caught': catch,
                           'target': target if len(target) < 80 else target[:40] + '...',
                           'real_result': sr.rres[:2], 'events': [e['ev'] for e in sr.mon.lib_mutations()][:12]})
            if not fault_all:
                return
            # one run per mkdir / rename the call made while the root function ran
            evs = [e for e in sr.mon.events if not e['user'] and e['phase'] == 'root'
                   and e['ev'] in ('os.mkdir', 'os.rename') and not e['paths'][0].startswith('<')
                   and e.get('realistic', True)]
            for k in range(1, len(evs) + 1):
                ev = evs[k - 1]
                if sibling and any('.old' in p for p in ev['paths']):
                    continue    # an event of the decoration call, not of the call under test
                # renames into the backup area that happen after setup (none today) would not be setup faults
                w.restore(tok, keep=True)
                opts = {'fault': {'k': k, 'kinds': ['os.mkdir', 'os.rename'], 'phases': ['root'],
                                  'errno': rng.choice(FAULT_ERRNOS),
                                  'cls': rng.choice(['OSError', 'PermissionError']), 'expect_fail': False},
                        'model_setup_fail': [target]}
                kw = build_kwargs(opts, w)
                srf = w.build(program, program['roots'][1], {}, label=1, step_opts=opts, **kw)
                sh.evaluations += 1
                sh.count('fault_runs')
                account_build(sh, srf)
                f = kw['fault']
                if f.fired is None:
                    sh.count('fault_not_reached')
                    continue
                sh.count('fault_' + ev['ev'].split('.')[1])
                sh.nt((anc, tgt, mode, catch, ev['ev'], k))
                tagf = tag + '|fault=%s' % ev['ev']
                # the injected error (or an OSError raised because of it) must surface from build_file
                if catch:
                    pk = [p for p in srf.rctx.peeks if p[0] == target]
                    if not pk or pk[0][1]:
                        sh.violation('injected_setup_fault_swallowed|' + tagf, {'peeks': pk[:2]},
                                     case_of(w, program))
                        continue
                else:
                    if srf.rres[0] != 'exc' or not isinstance(srf.exc_obj, OSError):
                        sh.violation('injected_setup_fault_not_propagated|' + tagf, {'rres': srf.rres[:2]},
                                     case_of(w, program))
                        continue
                judge(sh, w, program, srf, tagf)
        finally:
            w.discard(tok)


def nested_cases(sh, rng):
    """a build_file whose function makes a nested build_file below the same freshly created
    directories: outcomes (ok/fail) x (ok/fail) x inner caught/propagating x shared depth 1-3"""
    for shared in (1, 2, 3):
        for o_outer in ('ok', 'fail'):
            for o_inner in ('ok', 'fail'):
                for inner_catch in (True, False):
                    for inner_first in (True, False):
                        dirs = '/'.join('n%d' % i for i in range(shared))
                        t_outer, t_inner = dirs + '/outer', dirs + '/sub/inner' if shared == 2 else dirs + '/inner'
                        inner_stmt = ['bf', t_inner, 'I', {'catch': inner_catch}]
                        ob = ([inner_stmt] if inner_first else []) + [['write', 'o']] + \
                            ([] if inner_first else [inner_stmt]) + ([['raise', 'O']] if o_outer == 'fail' else [])
                        funcs = {'O': {'kind': 'bf', 'idx': 1, 'body': ob},
                                 'I': {'kind': 'bf', 'idx': 2,
                                       'body': [['write', 'i']] + ([['raise', 'I']] if o_inner == 'fail' else [])}}
                        probes = [['q', 'walk', '', 'M']] + [['q', 'is_dir', '/'.join('n%d' % i for i in range(k + 1)), 'M']
                                                             for k in range(shared)]
                        program = {'funcs': funcs, 'roots': [[['bf', t_outer, 'O', {'catch': True}]] + probes]}
                        with Scratch('n') as sc:
                            w = World(sc)
                            for rnd in range(2):
                                sr = w.build(program, program['roots'][0], {}, label=0)
                                sh.evaluations += 1
                                sh.count('nested_cases')
                                sh.nt(('nested', shared, o_outer, o_inner, inner_catch, inner_first, rnd))
                                if judge(sh, w, program, sr, 'nested|outer=%s|inner=%s' % (o_outer, o_inner)) or sr.divs:
                                    break


def exc_class_cases(sh, rng):
    """the exception that leaves the user's function - of ANY class, including the classes the
    library itself uses for its own conditions, and including the documented OSError of a builder query
    the function did not catch - is the object build_file/subbuild raise; the target and the directories
    created for it are gone: class x {before, after the write} x {caught, propagating} x {bf, sb}"""
    from ..gen import RAISE_CLASSES
    kinds = [('raise', c) for c in RAISE_CLASSES] + [
        ('q', 'read_text', 'missing/in'), ('q', 'read_binary', 'missing'), ('q', 'list_dir', 'missing'),
        ('q', 'get_size', 'missing'), ('q', 'declare_read', 'missing'), ('q', 'read_text', 'adir'),
        ('q', 'read_binary', 'in0/below'), ('q', 'list_dir', 'in0'), ('q', 'walk', 'missing')]
    for kind in kinds:
        for after in (False, True):
            for catch in (True, False):
                for callee in ('bf', 'sb'):
                    if kind[0] == 'raise':
                        st = ['raise', 'F', kind[1]]
                    else:
                        st = ['q', kind[1], kind[2], 'M', None, 'prop']
                    if callee == 'bf':
                        body = ([['write', '']] if after else []) + [st] + ([] if after else [['write', '']])
                        funcs = {'F': {'kind': 'bf', 'idx': 1, 'body': body}}
                        call = ['bf', 'd/e/t', 'F', {'catch': catch}]
                    else:
                        inner = {'kind': 'bf', 'idx': 2, 'body': [['write', '']]}
                        body = ([['bf', 'd/e/t', 'G', {'catch': False}]] if after else []) + [st]
                        funcs = {'F': {'kind': 'sb', 'idx': 1, 'body': body}, 'G': inner}
                        call = ['sb', 'F', {'catch': catch}]
                    probes = [['q', 'exists', 'd/e/t', 'M'], ['q', 'is_dir', 'd/e', 'M'], ['q', 'is_dir', 'd', 'M'],
                              ['q', 'walk', '', 'M']]
                    program = {'funcs': funcs, 'roots': [[call] + probes]}
                    with Scratch('x') as sc:
                        w = World(sc)
                        w.ext_write('in0', b'input')
                        w.ext_mkdir('adir')
                        for rnd in range(2):
                            sr = w.build(program, program['roots'][0], {}, label=0)
                            sh.evaluations += 1
                            sh.count('exc_class_cases')
                            sh.nt(('exc-class', kind[1], after, catch, callee, rnd))
                            if judge(sh, w, program, sr, 'exc-class|%s|%s|after=%s' % (callee, kind[1], after)) \
                                    or sr.divs:
                                break


def deep_value_cases(sh):
    """arguments that are valid JSON but hard to handle: nested 300-950 levels deep (copy.deepcopy and
    json have different recursion budgets), very long lists, long strings.  Whatever the call does - return
    or raise, before or after entering the function - the contract holds: a call that raised left no target
    and none of the directories it created (in the view at once, on disk at the end of the build), the build
    itself commits, an unchanged rebuild and clean behave.  Direct assertions on the real library (the
    interpreter and the model are not built for such values)."""
    from ..env import FileBuilder
    import sys

    def nest_list(n):
        v = []
        for _ in range(n):
            v = [v]
        return v

    def nest_dict(n):
        v = {}
        for _ in range(n):
            v = {'k': v}
        return v
    values = [('list%d' % n, nest_list(n)) for n in (300, 500, 600, 800, 950)] + \
        [('dict%d' % n, nest_dict(n)) for n in (300, 600, 900)] + \
        [('long-list', list(range(200000))), ('long-str', 'x' * 2000000)]
    for label, val in values:
        for as_kw in (False, True):
            for prior_state in ('absent', 'stale-output'):
                with Scratch('D') as sc:
                    sb = sc.sb
                    cache = os.path.join(sb, 'cache.gz')
                    target = os.path.join(sb, 'gen', 'sub', 't')
                    other = os.path.join(sb, 'out', 'ok')
                    seen = {}

                    def fn(b, filename, *a, **k):
                        seen['entered'] = seen.get('entered', 0) + 1
                        env.write_file(filename, b'built')
                        return None

                    def fn_other(b, filename):
                        env.write_file(filename, b'other')
                        return 1

                    def root(b):
                        seen.clear()
                        try:
                            if as_kw:
                                b.build_file(target, 'F', fn, opt=val)
                            else:
                                b.build_file(target, 'F', fn, val)
                            seen['outcome'] = 'returned'
                        except Exception as e:      # noqa
                            seen['outcome'] = 'raised:' + type(e).__name__
                        seen['view'] = (b.exists(target), b.is_dir(os.path.join(sb, 'gen', 'sub')),
                                        b.is_dir(os.path.join(sb, 'gen')))
                        b.build_file(other, 'G', fn_other)
                        return seen['outcome']

                    def plain_root(b):
                        b.build_file(target, 'F', fn)
                        b.build_file(other, 'G', fn_other)
                    problems = []
                    try:
                        if prior_state == 'stale-output':
                            FileBuilder.build(cache, 'n', plain_root)
                        for rnd in (1, 2):
                            try:
                                FileBuilder.build(cache, 'n', root)
                            except Exception as e:  # noqa
                                problems.append('build %d failed as a whole: %s' % (rnd, type(e).__name__))
                                break
                            raised = seen.get('outcome', '').startswith('raised')
                            if raised and seen.get('view') != (False, False, False):
                                problems.append('build %d: view after the failed call (exists(target), is_dir(sub), '
                                                'is_dir(gen)) = %r' % (rnd, seen.get('view')))
                            if not raised and seen.get('view') != (True, True, True):
                                problems.append('build %d: view after the successful call = %r' % (rnd, seen.get('view')))
                            disk = (os.path.lexists(target), os.path.isdir(os.path.dirname(target)),
                                    os.path.isdir(os.path.join(sb, 'gen')))
                            if raised and disk != (False, False, False):
                                problems.append('build %d: on disk after the build %r' % (rnd, disk))
                            if not os.path.isfile(other):
                                problems.append('build %d: the unrelated output is missing' % rnd)
                        FileBuilder.clean(cache, 'n')
                        left = sorted(os.listdir(sb))
                        if left:
                            problems.append('clean left %r' % (left[:4],))
                    except RecursionError:
                        problems.append('harness recursion (inconclusive)')
                    sh.evaluations += 1
                    sh.count('deep_value_cases')
                    sh.nt(('deep', label, as_kw, prior_state, seen.get('outcome')))
                    real = [p for p in problems if 'inconclusive' not in p]
                    if real:
                        sh.violation('hard_argument_value|%s|%s' % (label.rstrip('0123456789'), real[0].split(':')[0][:40]),
                                     {'value': label, 'keyword': as_kw, 'prior': prior_state, 'problems': real[:4],
                                      'outcome': seen.get('outcome')},
                                     {'kind': 'c10-deep-value', 'value': label, 'keyword': as_kw, 'prior': prior_state})


def run_shard(sh):
    rng = random.Random((sh.seed * 1000003 + sh.idx) & 0xffffffff)
    if sh.idx % 4 == 1:
        nested_cases(sh, rng)
    if sh.idx % 8 == 3:
        deep_value_cases(sh)
    if sh.idx % 4 == 2:
        exc_class_cases(sh, rng)
    combos = []
    for depth in (1, 2, 3):
        for anc in anc_vectors(depth):
            for tgt in TGT:
                for mode in MODES:
                    for catch in (True, False):
                        if tgt == 'n256name' and (not catch or mode in ('nonjson', 'tuple', 'raise_after')):
                            continue    # which exception class leaves build_file is unspecified there
                        if mode == 'swallow' and tgt != 'n256name':
                            continue    # nothing to swallow: same as 'ok'
                        combos.append((anc, tgt, mode, catch))
    mine = combos[sh.idx::sh.n]
    rng.shuffle(mine)
    done = 0
    for c in mine:
        if sh.time_left() <= 0:
            break
        run_combo(sh, *c, rng)
        done += 1
    sh.exhaustive = done == len(mine)
    sh.count('product_done', done)
    sh.count('product_total', len(mine))
    # depth 4: sampled
    vec4 = anc_vectors(4)
    while sh.time_left() > 0:
        tg, md, ct = rng.choice(TGT), rng.choice(MODES), rng.random() < 0.5
        if tg == 'n256name':
            md, ct = rng.choice(['ok', 'raise_before', 'nocreate', 'swallow']), True
        elif md == 'swallow':
            md = 'ok'
        run_combo(sh, rng.choice(vec4), tg, md, ct, rng)
        sh.count('depth4_sampled')
