"""C12 clean removes exactly what the last build created."""
from .common import run_histories, signature, detail, case_of, account_build
from ..env import Scratch
from ..world import World

CONFIG = {
    'level': 'exploration',
    'budget': {'quick': 30, 'thorough': 600},
    'rule': ('random programs x histories; after every build step (committed or rolled back, after '
             'external tampering) clean is performed on a saved copy: tree must equal the model clean '
             '(recorded outputs even if modified, cache file, recorded created directories that are '
             'empty afterwards - nothing else), FS events must stay inside that set, a second clean '
             'must change nothing and not raise, and the following build must equal a model first '
             'build (result, tree, every function invoked); real clean steps are part of the '
             'histories too; evaluations = clean calls judged; distinct_nontrivial = distinct '
             '(program shape, step kinds before the clean)'),
    'gates': ['prefix_clean_cases', 'cache_dir_cleans', 'clean_probes', 'clean_after_rollback', 'clean_twice', 'build_after_clean',
              'ev:os.rmdir|clean', 'ev:os.remove|clean'],
}

KINDS = {'clean_tree', 'clean_result', 'foreign_event', 'foreign_changed', 'tmp_leftover'}
NEXT = {'result', 'tree', 'missing_invocation', 'query'}


def select(d):
    return d['kind'] in KINDS and d.get('phase', 'clean') == 'clean'


def probe(sh, w, program, sr, ctx):
    rng = ctx['rng']
    if rng.random() > 0.6:
        return False
    tok = w.save()
    try:
        had = w.model.current_record() is not None
        c1 = w.clean(build_name=None) if rng.random() < 0.3 else w.clean()
        sh.evaluations += 1
        sh.count('clean_probes')
        if not sr.committed:
            sh.count('clean_after_rollback')
        if had:
            sh.count('clean_with_cache')
        for k, v in c1.mon.counts.items():
            if k[2] == 'lib':
                sh.count('ev:%s|%s' % (k[0], k[1]), v)
        sh.nt((ctx['shape'], tuple(s[0] for s in w.steps)))
        bad = False
        for d in c1.divs:
            sh.count('div:' + d['kind'])
            if select(d):
                sh.violation(signature(d), detail(d), case_of(w, program))
                bad = True
        if bad or c1.divs:
            return False
        c2 = w.clean()
        sh.count('clean_twice')
        sh.evaluations += 1
        if c2.rres != ['ok', None] or c2.pre != c2.post or c2.divs:
            sh.violation('second_clean_not_noop', {'rres': c2.rres, 'divs': [dict(x) for x in c2.divs][:2]},
                         case_of(w, program))
            return False
        if c2.mon.lib_mutations():
            sh.violation('second_clean_mutates', {'events': [e['ev'] for e in c2.mon.lib_mutations()][:4]},
                         case_of(w, program))
            return False
        sr2 = w.build(program, ctx['body'] if ctx['label'] != 'failing' else program['roots'][0], ctx['vers'],
                      label=ctx['label'] if ctx['label'] != 'failing' else 0)
        sh.count('build_after_clean')
        account_build(sh, sr2)
        for d in sr2.divs:
            sh.count('div_next:' + d['kind'])
            if d['kind'] in NEXT:
                sh.violation('build_after_clean|' + signature(d), detail(d), case_of(w, program))
        if len(sh.samples) < 2 and had:
            sh.sample({'program': program, 'steps': w.steps[-6:], 'removed_by_clean':
                       sorted(set(c1.pre) - set(c1.post))[:8]})
    finally:
        w.restore(tok)
    return False


def cache_dir_cases(sh):
    """the cache file lives in a directory the build itself creates and shares with outputs:
    all sequences of up to three builds over five roots (output below the cache directory
    succeeds / fails / is absent / a sibling succeeds while it fails / outputs elsewhere),
    clean probed on a copy after every build"""
    import itertools
    from ..env import Scratch
    from ..world import World
    funcs = {'Fok': {'kind': 'bf', 'idx': 1, 'body': [['write', 'ok']]},
             'Fbad': {'kind': 'bf', 'idx': 2, 'body': [['write', 'bad'], ['raise', 'Fbad']]}}
    roots = {
        'A': [['bf', 'out/gen/a', 'Fok', {'catch': True}]],
        'B': [['bf', 'out/gen/a', 'Fbad', {'catch': True}]],
        'C': [],
        'D': [['bf', 'out/x', 'Fok', {'catch': True}], ['bf', 'out/gen/a', 'Fbad', {'catch': True}]],
        'E': [['bf', 'other/y', 'Fok', {'catch': True}]],
    }
    names = sorted(roots)
    program = {'funcs': funcs, 'roots': [roots[n] for n in names]}
    seqs = [s for n in (1, 2, 3) for s in itertools.product(range(len(names)), repeat=n)]
    for seq in seqs[sh.idx::sh.n]:
        if sh.time_left() <= 0:
            return
        with Scratch('q') as sc:
            w = World(sc, 'out/cache.gz')
            ok = True
            for ri in seq:
                sr = w.build(program, program['roots'][ri], {}, label=ri)
                sh.evaluations += 1
                sh.count('cache_dir_builds')
                for d in sr.divs:
                    if d['kind'] in ('tree', 'result', 'rollback_tree'):
                        sh.violation(signature(d) + '|cache-in-created-dir', detail(d), case_of(w, program))
                        ok = False
                if not ok or sr.divs:
                    ok = False
                    break
                tok = w.save()
                c = w.clean(build_name=None if ri == 2 else '__same__')
                sh.count('cache_dir_cleans')
                sh.nt(('cache-dir', tuple(names[i] for i in seq[:seq.index(ri) + 1])))
                for d in c.divs:
                    if d['kind'] in KINDS:
                        sh.violation(signature(d) + '|cache-in-created-dir', detail(d), case_of(w, program))
                        ok = False
                w.restore(tok)
                if not ok:
                    break


def prefix_and_vanished_dir_cases(sh):
    """clean with created directories whose names are string prefixes of one another (out / out2, a / a.b,
    d / 'd d') while the longer-named one cannot be removed (a foreign file was planted in it), or with a
    nested created directory that was deleted externally before clean: every other created directory is
    still removed (a directory that cannot be removed says nothing about its siblings or its parent)"""
    funcs = {'G': {'kind': 'bf', 'idx': 5, 'body': [['write', 'g']]}}
    for short, long_ in (('out', 'out2'), ('a', 'a.b'), ('d', 'd d'), ('x/y', 'x/y2')):
        for variant in ('plant-in-long', 'plant-in-short', 'delete-nested', 'none'):
            for nbuilds in (1, 2):
                root = [['bf', short + '/s/f', 'G', {'catch': False}], ['bf', long_ + '/l/f', 'G', {'catch': False, 'args': [1]}]]
                program = {'funcs': funcs, 'roots': [root]}
                with Scratch('p') as sc:
                    w = World(sc)
                    w.ext_write('keep/foreign', b'unrelated foreign file')
                    bad = False
                    for _ in range(nbuilds):
                        sr = w.build(program, root, {}, label=0)
                        if sr.divs:
                            bad = True
                            break
                    if bad:
                        continue
                    if variant == 'plant-in-long':
                        w.ext_write(long_ + '/zz', b'foreign')
                    elif variant == 'plant-in-short':
                        w.ext_write(short + '/zz', b'foreign')
                    elif variant == 'delete-nested':
                        w.ext_delete(short + '/s')
                    c = w.clean()
                    sh.evaluations += 1
                    sh.count('prefix_clean_cases')
                    sh.nt(('prefix-clean', short, variant, nbuilds))
                    for d in c.divs:
                        if d['kind'] in KINDS:
                            sh.violation(signature(d) + '|prefix-siblings|' + variant, detail(d), case_of(w, program))
                            break
                    else:
                        c2 = w.clean()
                        for d in c2.divs:
                            if d['kind'] in KINDS:
                                sh.violation(signature(d) + '|prefix-siblings|second-clean', detail(d), case_of(w, program))
                                break


def run_shard(sh):
    cache_dir_cases(sh)
    if sh.idx % 4 == 2:
        prefix_and_vanished_dir_cases(sh)
    from .swapcases import run_swap_cases
    run_swap_cases(sh, lambda d: d['kind'] in KINDS and d.get('phase', 'clean') == 'clean', 'C12',
                   nested_cache=sh.idx % 2 == 1)
    from ..gen import program_shape
    shapes = {}

    def after_build(w, program, sr, ctx):
        ctx['shape'] = shapes.setdefault(id(program), program_shape(program))
        return probe(sh, w, program, sr, ctx)
    run_histories(sh, select=select, steps_range=(3, 6) if sh.tier == 'quick' else (5, 10),
                  nested_prob=0.35, clean_prob=0.15, fail_prob=0.2, after_build=after_build,
                  mut_weights={'write': 3, 'modify': 2, 'delete': 2, 'mkdir': 1.5, 'touch': 0.5,
                               'recreate': 0.5, 'swap': 1, 'tamper_output': 3, 'delete_output': 2,
                               'plant_in_created': 3, 'delcache': 0.3})
