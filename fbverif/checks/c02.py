"""C02 rollback: crash-point enumeration + failure while the cache is written."""
import random

from .common import FAULT_ERRNOS, signature, detail, case_of, account_build, handle_divs, nested_cache_rel
from ..env import Scratch
from ..world import World
from ..gen import GenCfg, gen_program, gen_versions, program_shape
from ..hist import random_mutation
from ..replay import build_kwargs

CONFIG = {
    'level': 'fault_enumeration',
    'budget': {'quick': 35, 'thorough': 600},
    'rule': ('for random programs on random prior histories (no cache / valid cache / tampered or '
             'deleted outputs / swaps / foreign files at targets) a dry run numbers every program '
             'point of the actual (cached) execution at which user code could raise (before/after '
             'each builder call, entry/exit of each nested function, root entry/exit); one run per '
             'point k injects an exception that every generated except block re-raises, plus one run '
             'with an OSError injected when the cache file is opened for writing; oracle: same '
             'exception object re-raised, every pre-existing file present with identical bytes and '
             'mtime, nothing new left (latitude: empty directories the previous committed build '
             'recorded as created), and the following build equals the model of a history without '
             'the failed build (result, tree, invocations); evaluations = injected runs; '
             'distinct_nontrivial = distinct (program shape, prior step kinds, crash label class, '
             'had-cache?, reused-before-crash?)'),
    'gates': ['exit_faults_injected', 'unrepresentable_target_cases', 'ladder_cases', 'many_backup_runs', 'swap_cases', 'swap_cases_rolled_back', 'crash_runs', 'cachewrite_fault_runs', 'crash_after_reuse', 'crash_with_backup'],
}

NEXT_KINDS = {'result', 'tree', 'extra_invocation', 'query', 'reused_output_rewritten', 'missing_invocation'}
ROLLBACK_KINDS = {'rollback_tree', 'exception_identity_root', 'tmp_leftover', 'result', 'issue'}


def run_shard(sh):
    from .swapcases import run_swap_cases
    run_swap_cases(sh, lambda d: d['kind'] in ROLLBACK_KINDS | NEXT_KINDS | {'foreign_changed', 'foreign_event'},
                   'C02', crash_points=True, nested_cache=sh.idx % 2 == 1)
    from .laddercases import run_ladder_cases, run_unrepresentable_cases
    if sh.idx % 8 == 2:
        run_unrepresentable_cases(sh, lambda d: d['kind'] in ROLLBACK_KINDS | NEXT_KINDS | {'foreign_changed', 'foreign_event'})
    run_ladder_cases(sh, lambda d: d['kind'] in ROLLBACK_KINDS | NEXT_KINDS | {'foreign_changed', 'foreign_event'})
    rng = random.Random((sh.seed * 1000003 + sh.idx) & 0xffffffff)
    if sh.idx % 8 == 0:
        many_backups(sh, rng)
    if sh.idx % 8 == 4:
        exit_fault_cases(sh, rng)
    if sh.tier != 'quick' and sh.idx == 3:
        many_backups(sh, rng, big=True)
    maxk = 30 if sh.tier == 'quick' else 200
    while sh.time_left() > 0:
        cfg = GenCfg()
        program = gen_program(rng, cfg)
        shape = program_shape(program)
        nested = rng.random() < 0.25
        with Scratch('r') as sc:
            w = World(sc, nested_cache_rel(rng, program) if nested else 'cache.gz')
            counter = [0]
            bad = False
            for _ in range(rng.randint(0, 3)):
                for _ in range(rng.randint(0, 2)):
                    random_mutation(rng, w, cfg, counter=counter)
                ri = rng.randrange(len(program['roots']))
                sr = w.build(program, program['roots'][ri], {}, label=ri)
                if sr.divs:
                    bad = True
                    break
            if bad:
                sh.count('prior_history_diverged')
                continue
            for _ in range(rng.randint(0, 2)):
                random_mutation(rng, w, cfg, counter=counter)
            ri = rng.randrange(len(program['roots']))
            body = program['roots'][ri]
            vers = gen_versions(rng, program) if rng.random() < 0.15 else {}
            had_cache = w.model.current_record() is not None
            tok = w.save()
            try:
                # dry run: number the program points of the actual (cached) execution
                sr = w.build(program, body, vers, label=ri)
                if sr.divs or sr.rres[0] != 'ok':
                    # the unperturbed build itself fails or diverges: not a crash-point case
                    sh.count('dry_run_not_ok')
                    continue
                n = sr.rctx.npoints
                reused = sr.stats.get('hits_top', 0) > 0
                ks = list(range(1, n + 1))
                if len(ks) > maxk:
                    ks = sorted(rng.sample(ks, maxk))
                plans = [{'crash_at': k} for k in ks]
                plans.append({'fault': {'k': 1, 'kinds': ['open_w'], 'phases': ['post-root'],
                                        'errno': rng.choice(FAULT_ERRNOS),
                                        'cls': 'OSError'}})
                for plan in plans:
                    if sh.time_left() <= 0:
                        break
                    w.restore(tok, keep=True)
                    kw = build_kwargs(plan)
                    sr = w.build(program, body, vers, label='crash', step_opts=plan, **kw)
                    sh.evaluations += 1
                    account_build(sh, sr)
                    if 'crash_at' in plan:
                        sh.count('crash_runs')
                        lab = getattr(sr.rctx, 'crashed_at', None)
                        labc = (lab or 'none').split(':')[0]
                        sh.count('crash_label:' + labc)
                        nrest = sum(1 for e in sr.mon.events if e['ev'] == 'os.rename' and not e['user'])
                        if nrest:
                            sh.count('crash_with_backup')
                        if reused:
                            sh.count('crash_after_reuse')
                        sh.nt((shape, tuple(s[0] for s in w.steps[:-1]), labc, had_cache, reused))
                        if sr.rres != ['exc', 'Crash']:
                            sh.violation('crash_not_propagated|%s' % (sr.rres[0] if sr.rres[0] == 'ok' else sr.rres[1]),
                                         {'rres': sr.rres[:2]}, case_of(w, program))
                            continue
                    else:
                        sh.count('cachewrite_fault_runs')
                        f = kw['fault']
                        if f.fired is None:
                            sh.count('cachewrite_fault_not_reached')
                            continue
                        sh.nt((shape, 'cachewrite', had_cache))
                        if sr.rres[0] != 'exc' or sr.exc_obj is not f.exc:
                            sh.violation('cache_write_error_not_propagated', {'rres': sr.rres[:2]},
                                         case_of(w, program))
                            continue
                    viol = False
                    for d in sr.divs:
                        sh.count('div:' + d['kind'])
                        if d['kind'] in ROLLBACK_KINDS:
                            sh.violation(signature(d), detail(d), case_of(w, program))
                            viol = True
                    if viol or sr.divs:
                        continue
                    # the next build behaves as if the failed build had never run
                    sr2 = w.build(program, body, vers, label=ri)
                    sh.count('next_builds')
                    for d in sr2.divs:
                        sh.count('div_next:' + d['kind'])
                        if d['kind'] in NEXT_KINDS:
                            sh.violation('after_rollback|' + signature(d), detail(d), case_of(w, program))
                    if len(sh.samples) < 2 and 'crash_at' in plan and had_cache:
                        sh.sample({'program': program, 'steps': w.steps[-4:], 'points': n,
                                   'crash_label': getattr(sr.rctx, 'crashed_at', None)})
            finally:
                w.discard(tok)
        sh.count('programs')


def exit_fault_cases(sh, rng):
    """removing the private backup area when the call ends is best effort: an OSError there (EBUSY, EACCES, a
    temp cleaner that was faster) may leave the temp directory behind, but it must not change the OUTCOME of
    the call - a failed build still re-raises the user's exception object and has restored everything, a
    successful build still returns its value"""
    from ..replay import build_kwargs
    funcs = {'F': {'kind': 'bf', 'idx': 1, 'body': [['q', 'read_text', 'in0', 'M'], ['write', 'new']]}}
    ok_body = [['bf', 'foreign', 'F', {'catch': False}], ['bf', 'o/x', 'F', {'catch': False}]]
    program = {'funcs': funcs, 'roots': [ok_body, ok_body + [['raise', 'root']]]}
    for root_raises in (True, False):
        for with_prior in (True, False):
            for code, cls in (('EBUSY', 'OSError'), ('EACCES', 'PermissionError'), ('ENOENT', 'OSError')):
                with Scratch('x') as sc:
                    w = World(sc)
                    w.ext_write('in0', b'input zero')
                    w.ext_write('foreign', b'a foreign file that the build overwrites')
                    if with_prior:
                        sr0 = w.build(program, program['roots'][0], {}, label=0)
                        if sr0.divs:
                            continue
                        w.ext_write('in0', b'changed input')
                    opts = {'fault': {'k': 1, 'kinds': ['os.rmdir', 'os.remove'], 'phases': ['pre-root', 'root', 'post-root', 'after-api', 'outside'],
                                      'errno': code, 'cls': cls, 'expect_fail': False, 'in_tmp': True}}
                    kw = build_kwargs(opts, w)
                    kw['fault'].realistic = False
                    ri = 1 if root_raises else 0
                    sr = w.build(program, program['roots'][ri], {}, label=ri, step_opts=opts, **kw)
                    sh.evaluations += 1
                    sh.count('exit_fault_runs')
                    if kw['fault'].fired is None:
                        sh.count('exit_fault_not_reached')
                        continue
                    sh.count('exit_faults_injected')
                    sh.nt(('exit-fault', root_raises, with_prior, code))
                    for d in sr.divs:
                        if d['kind'] == 'tmp_leftover':
                            continue        # the removal was made to fail: the leftover is the expected part
                        if d['kind'] in ROLLBACK_KINDS | {'tree', 'foreign_changed'}:
                            sh.violation(signature(d) + '|fault-while-removing-backup-area', detail(d), case_of(w, program))
                            break


def many_backups(sh, rng, big=False, variant=None, kinds=None):
    """more than 128 files moved aside in one build (the backup area is laid out in
    sub-directories of 128), then a failure: every one must be restored"""
    n = rng.choice([129, 140, 260])
    if big:
        n = 128 * 128 + rng.choice([1, 7, 130])     # second level of the backup layout
    funcs = {'F': {'kind': 'bf', 'idx': 1, 'body': [['write', 'new']]}}
    body = [['bf', 'o/f%03d' % i, 'F', {'catch': False, 'args': [i]}] for i in range(n)]
    program = {'funcs': funcs, 'roots': [body, body + [['raise', 'root']]]}
    with Scratch('k') as sc:
        w = World(sc)
        variant = variant or rng.choice(['foreign', 'stale-outputs'])
        if variant == 'stale-outputs':
            sr = w.build(program, program['roots'][0], {}, label=0)
            if sr.divs:
                return
            for i in range(n):
                w.ext_write('o/f%03d' % i, ('tampered %d' % i).encode())
        else:
            for i in range(n):
                w.ext_write('o/f%03d' % i, ('foreign %d' % i).encode())
        sr = w.build(program, program['roots'][1], {}, label=1)
        sh.evaluations += 1
        sh.count('many_backup_runs')
        nren = sum(1 for e in sr.mon.events if e['ev'] == 'os.rename' and not e['user'])
        sh.count('many_backup_renames', nren)
        sh.nt(('many-backups', n, variant))
        for d in sr.divs:
            if d['kind'] in (kinds or (ROLLBACK_KINDS | {'foreign_changed'})):
                sh.violation(signature(d) + '|many-backups', detail(d), case_of(w, program))
                return
        sr2 = w.build(program, program['roots'][0], {}, label=0)
        for d in sr2.divs:
            if d['kind'] in NEXT_KINDS:
                sh.violation('after_rollback|' + signature(d) + '|many-backups', detail(d), case_of(w, program))
