"""C18 JSON helper laws (bounded-exhaustive core + random deeper values)."""
import json
import random

from .. import env  # noqa: F401  (import path)
from ..jsonref import canon, roundtrip, type_exact_equal, shares_mutable, json_equal
from ..values import sized_values, rand_value, ATOMS, mined_candidates

CONFIG = {
    'level': 'exploration',
    'budget': {'quick': 25, 'thorough': 420},
    'rule': ('JsonUtil.sanitize / is_equal / to_hashable called directly: (1) exhaustive over ALL values '
             'with <= 3 nodes over the 13 collision atoms {None,False,True,0,1,2,1.0,-0.0,"","0","a",2**63,inf} '
             '(lists, tuples, dicts with string keys; for sanitize also non-string keys and simple '
             'str/int/float/list/dict/tuple subclasses): sanitize == json.loads(json.dumps(v)) type-exactly, '
             'idempotent, alias-free, TypeError on non-JSON; ALL ordered pairs: is_equal(a,b) == independent '
             'JSON equality, symmetric, to_hashable(a)==to_hashable(b) <=> JSON-equal, hash agrees; all triples '
             'of a subset for transitivity; output-guided second preimages: the observed to_hashable form of every '
             'subtree is re-read as a list / flat dict / scalar with and without its leading tag and substituted '
             '(collisions through the encoding\'s own tags are constructed, not guessed); key-order layer: all dicts with 2-3 keys from '
             '{a, A, NFC/NFD e-acute, 1, 01, empty, space} in every insertion order (same key set => equal, whatever the order); (2) random values to '
             'depth 6 with near-miss mutants and mined preimages. evaluations = '
             'law evaluations; distinct_nontrivial = distinct pairs that are JSON-equal but not identical, or '
             'Python-== but not JSON-equal (the collision pairs)'),
    'exhaustive_layer': 'all values with <=3 nodes over the 13 atoms: every value (sanitize laws) and every ordered pair (equality/hash laws)',
    'gates': ['pairs', 'sanitize_checked', 'triples', 'typeerror_cases', 'mined_pairs', 'key_order_pairs'],
}


class S(str):
    pass


class I(int):
    pass


class F(float):
    pass


class L(list):
    pass


class D(dict):
    pass


class T(tuple):
    pass


def subclassed(v, rng):
    """replace some nodes by instances of plain subclasses"""
    if isinstance(v, bool) or v is None:
        return v
    if isinstance(v, str):
        return S(v) if rng.random() < 0.5 else v
    if isinstance(v, int):
        return I(v) if rng.random() < 0.5 else v
    if isinstance(v, float):
        return F(v) if rng.random() < 0.5 else v
    if isinstance(v, list):
        x = [subclassed(e, rng) for e in v]
        return L(x) if rng.random() < 0.5 else x
    if isinstance(v, tuple):
        x = tuple(subclassed(e, rng) for e in v)
        return T(x) if rng.random() < 0.5 else x
    if isinstance(v, dict):
        x = {(S(k) if isinstance(k, str) and rng.random() < 0.3 else k): subclassed(e, rng)
             for k, e in v.items()}
        return D(x) if rng.random() < 0.5 else x
    return v


NON_JSON = [object(), {1, 2}, b'x', bytearray(b'x'), 1j, [object()], {'k': {1}}, {(1, 2): 3},
            {'k': [b'x']}, (object(),), {b'k': 1}, range(3), frozenset(), Ellipsis, [lambda: 0]]


def check_sanitize(sh, JsonUtil, v, label):
    try:
        want = json.loads(json.dumps(v))
    except (TypeError, ValueError):
        return
    sh.evaluations += 3
    sh.count('sanitize_checked')
    try:
        got = JsonUtil.sanitize(v)
    except Exception as e:
        sh.violation('sanitize_raises|' + type(e).__name__, {'value': repr(v)[:200], 'label': label},
                     {'kind': 'c18', 'value': repr(v)[:300]})
        return
    if not type_exact_equal(got, want):
        sh.violation('sanitize_differs_from_json_roundtrip|' + label,
                     {'value': repr(v)[:200], 'got': repr(got)[:200], 'want': repr(want)[:200]},
                     {'kind': 'c18', 'value': repr(v)[:300]})
        return
    if shares_mutable(v, got):
        sh.violation('sanitize_aliases_input|' + label, {'value': repr(v)[:200]},
                     {'kind': 'c18', 'value': repr(v)[:300]})
    again = JsonUtil.sanitize(got)
    if not type_exact_equal(again, got):
        sh.violation('sanitize_not_idempotent', {'value': repr(v)[:200]}, {'kind': 'c18', 'value': repr(v)[:300]})
    if shares_mutable(got, again):
        sh.violation('sanitize_aliases_sanitized_input', {'value': repr(v)[:200]},
                     {'kind': 'c18', 'value': repr(v)[:300]})


def check_pair(sh, JsonUtil, a, b, ca, cb, ha, hb):
    sh.evaluations += 3
    want = ca == cb
    got = JsonUtil.is_equal(a, b)
    if got is not want:
        sh.violation('is_equal_wrong|want=%s' % want, {'a': repr(a)[:120], 'b': repr(b)[:120], 'got': repr(got)},
                     {'kind': 'c18', 'a': repr(a)[:200], 'b': repr(b)[:200]})
        return
    if JsonUtil.is_equal(b, a) is not got:
        sh.violation('is_equal_asymmetric', {'a': repr(a)[:120], 'b': repr(b)[:120]},
                     {'kind': 'c18', 'a': repr(a)[:200], 'b': repr(b)[:200]})
    if ha is not None and hb is not None:
        heq = ha == hb
        if heq is not want:
            sh.violation('to_hashable_%s' % ('collision' if heq else 'split'),
                         {'a': repr(a)[:120], 'b': repr(b)[:120], 'ha': repr(ha)[:80], 'hb': repr(hb)[:80]},
                         {'kind': 'c18', 'a': repr(a)[:200], 'b': repr(b)[:200]})
        elif heq and hash(ha) != hash(hb):
            sh.violation('to_hashable_hash_differs', {'a': repr(a)[:120], 'b': repr(b)[:120]},
                         {'kind': 'c18', 'a': repr(a)[:200], 'b': repr(b)[:200]})


def has_tuple(v):
    if isinstance(v, tuple):
        return True
    if isinstance(v, list):
        return any(has_tuple(x) for x in v)
    if isinstance(v, dict):
        return any(has_tuple(x) for x in v.values())
    return False


def run_shard(sh):
    from file_builder.json_util import JsonUtil
    rng = random.Random(sh.seed * 7919 + sh.idx)
    # ---------------- (1a) sanitize on every value incl. non-string keys / tuples
    if sh.idx == 0:
        allv = sized_values(tuples=True, nonstr_keys=True)
        for v, size in allv:
            check_sanitize(sh, JsonUtil, v, 'size%d' % size)
        for v, size in allv:
            check_sanitize(sh, JsonUtil, subclassed(v, rng), 'subclass')
        for v in NON_JSON:
            sh.evaluations += 1
            sh.count('typeerror_cases')
            try:
                r = JsonUtil.sanitize(v)
                sh.violation('sanitize_accepts_non_json', {'value': repr(v)[:80], 'got': repr(r)[:80]},
                             {'kind': 'c18', 'value': repr(v)[:100]})
            except TypeError:
                pass
            except Exception as e:
                sh.violation('sanitize_non_json_raises_' + type(e).__name__, {'value': repr(v)[:80]},
                             {'kind': 'c18', 'value': repr(v)[:100]})
        # history independence of sanitize for non-string keys: keys that are == (some even with the same
        # type and hash: 0.0 / -0.0) but spell differently in JSON, sanitised one after the other in every order
        KEYATOMS = [0.0, -0.0, 0, False, True, 1, 1.0, None, '0.0', '-0.0', 2 ** 53, float(2 ** 53), -1, -1.0]
        for k1 in KEYATOMS:
            for k2 in KEYATOMS:
                check_sanitize(sh, JsonUtil, {k1: 1}, 'key-sequence')
                check_sanitize(sh, JsonUtil, {k2: [k1]}, 'key-sequence')
                check_sanitize(sh, JsonUtil, [{k2: 1}, {k1: 2}], 'key-sequence')
                sh.count('key_sequence_checked', 3)
    else:
        sh.count('sanitize_checked', 0)
        sh.count('typeerror_cases', 0)
    # ---------------- (1b) all ordered pairs of sanitized(+tuple) values
    vals = [v for v, _ in sized_values(tuples=True, nonstr_keys=False)]
    canons = [canon(json.loads(json.dumps(v))) for v in vals]
    hashables = []
    for v in vals:
        if has_tuple(v):
            hashables.append(None)   # to_hashable is specified for sanitized values only
        else:
            try:
                h = JsonUtil.to_hashable(v)
                hash(h)
                hashables.append(h)
            except Exception as e:
                sh.violation('to_hashable_raises_' + type(e).__name__, {'value': repr(v)[:100]},
                             {'kind': 'c18', 'value': repr(v)[:100]})
                hashables.append(None)
    n = len(vals)
    sh.count('values', n if sh.idx == 0 else 0)
    complete = True
    for i in range(sh.idx, n, sh.n):
        if sh.time_left() <= 0 and sh.tier == 'quick' and i > n * 0.98:
            pass
        a, ca, ha = vals[i], canons[i], hashables[i]
        for j in range(n):
            check_pair(sh, JsonUtil, a, vals[j], ca, canons[j], ha, hashables[j])
            eq = ca == canons[j]
            if i != j and eq:
                sh.nt(('eq', min(i, j), max(i, j)))
            elif not eq:
                try:
                    if a == vals[j]:
                        sh.nt(('pyeq', min(i, j), max(i, j)))
                except Exception:
                    pass
        sh.count('pairs', n)
        if len(sh.violations) > 30:
            complete = False
            break
    sh.exhaustive = complete
    # reflexivity on identical object
    for v in vals[sh.idx::sh.n]:
        sh.evaluations += 1
        if JsonUtil.is_equal(v, v) is not True:
            sh.violation('is_equal_not_reflexive', {'value': repr(v)[:100]}, {'kind': 'c18', 'value': repr(v)[:100]})
    # ---------------- (1c) transitivity on a subset: all triples
    sub_n = 90 if sh.tier == 'quick' else 260
    sub = rng.sample(range(n), sub_n)
    # make sure the collision-rich small values are inside
    sub = list(dict.fromkeys(list(range(min(n, 40))) + sub))[:sub_n]
    eqm = {}
    for i in sub:
        for j in sub:
            eqm[(i, j)] = JsonUtil.is_equal(vals[i], vals[j])
    for x in sub[sh.idx::sh.n]:
        for y in sub:
            if not eqm[(x, y)]:
                continue
            for z in sub:
                sh.evaluations += 1
                if eqm[(y, z)] and not eqm[(x, z)]:
                    sh.violation('is_equal_not_transitive',
                                 {'a': repr(vals[x])[:80], 'b': repr(vals[y])[:80], 'c': repr(vals[z])[:80]},
                                 {'kind': 'c18', 'a': repr(vals[x]), 'b': repr(vals[y]), 'c': repr(vals[z])})
        sh.count('triples', len(sub) * len(sub))
    # ---------------- (1d) output-guided second preimages: the observed hashable form of every
    #                  subtree re-read as the other container kinds / scalars (values.mined_candidates)
    def mined_pairs(sv, cs, hs):
        for c in mined_candidates(JsonUtil.to_hashable, sv):
            try:
                sc = json.loads(json.dumps(c))
                hc = JsonUtil.to_hashable(sc)
            except (TypeError, ValueError):
                continue
            check_pair(sh, JsonUtil, sv, sc, cs, canon(sc), hs, hc)
            sh.count('mined_pairs')
    for i in range(sh.idx, n, sh.n):
        if hashables[i] is not None:
            mined_pairs(vals[i], canons[i], hashables[i])
    # ---------------- (1e) key-order layer: dicts over keys that tie under the usual normalisations
    #                  (case, NFC/NFD, padding, numeric spelling) in EVERY insertion order: the same key
    #                  set is JSON-equal whatever the order (equal hashable forms), different key sets never
    import itertools
    import unicodedata
    KEYPOOL = ['a', 'A', unicodedata.normalize('NFC', 'é'), unicodedata.normalize('NFD', 'é'), '1', '01', '', ' ']
    kvals = []
    for ksz in (2, 3):
        for ks in itertools.combinations(range(len(KEYPOOL)), ksz):
            for perm in itertools.permutations(ks):
                kvals.append((ks, {KEYPOOL[i]: i for i in perm}))
    for i in range(sh.idx, len(kvals), sh.n):
        ksa, a = kvals[i]
        ha = JsonUtil.to_hashable(a)
        ca = canon(a)
        for ksb, b in kvals:
            if ksa == ksb or len(ksa) == len(ksb) == 2:
                check_pair(sh, JsonUtil, a, b, ca, canon(b), ha, JsonUtil.to_hashable(b))
                sh.count('key_order_pairs')
                # one level down and as a list element, too
                check_pair(sh, JsonUtil, [a], [b], canon([a]), canon([b]), JsonUtil.to_hashable([a]),
                           JsonUtil.to_hashable([b]))
    # ---------------- (2) random deeper values + near misses
    from ..values import near_misses
    while sh.time_left() > 0:
        v = rand_value(rng, depth=rng.randint(2, 6), tuples=True, nonstr_keys=True)
        check_sanitize(sh, JsonUtil, v, 'random')
        check_sanitize(sh, JsonUtil, subclassed(v, rng), 'random-subclass')
        try:
            sv = json.loads(json.dumps(v))
        except (TypeError, ValueError):
            continue
        cs = canon(sv)
        hs = JsonUtil.to_hashable(sv)
        for m in near_misses(rng, sv) + [json.loads(json.dumps(sv))]:
            try:
                sm = json.loads(json.dumps(m))
            except (TypeError, ValueError):
                continue
            check_pair(sh, JsonUtil, sv, sm, cs, canon(sm), hs, JsonUtil.to_hashable(sm))
            sh.count('random_pairs')
        mined_pairs(sv, cs, hs)
        if len(sh.samples) < 2:
            sh.sample({'value': repr(v)[:200], 'sanitized': repr(sv)[:200],
                       'near_misses': [repr(m)[:80] for m in near_misses(rng, sv)[:4]]})
