"""C17 finished builders are fenced off."""
import os
import random

from .common import signature, detail, case_of, account_build
from ..env import Scratch
from ..world import World
from ..monitor import FsMonitor
from .. import sched, env, latestmts
from ..latestmts import METHODS, call_method

CONFIG = {
    'level': 'exploration',
    'budget': {'quick': 40, 'thorough': 600},
    'rule': ('(a) sequential matrix: every public builder method x {root, subbuild, build_file} builder x {owner returned, '
             'owner raised} called after the owner function finished (from the root, from inside another function, and '
             'for the root builder after build() returned): must raise RuntimeError, call no user function, cause no '
             'file-system event and claim nothing (a later legitimate build_file/subbuild of the same key succeeds), '
             'build result/tree equal the model; (a\') the same late calls after the owner (root, subbuild, build_file) left with SystemExit / '
             'KeyboardInterrupt / GeneratorExit / a BaseException subclass that its caller caught (fence only); (b) a straggler thread calls a method on the owner\'s builder while '
             'the owner returns, under the baton scheduler at source-line granularity (ALL single pre-emptions, '
             'sampled pairs, random/PCT) and free-running: with a logical clock, a call invoked after the enclosing subbuild/build_file call returned must '
             'raise RuntimeError; a call that completed normally must be part of the record (mutating the path only '
             'it observed forces re-execution of the owner in the next build) and a call that was told "already '
             'finished" must not be (that mutation forces nothing); a complex call (build_file/subbuild) whose own function returned after the close must not complete normally '
             '(counter complex_straggler_function_spans_close); (b\') directed, real threads ordered by events: a nested subbuild/build_file invoked before the owner returns whose function '
             'reads a path and raises after the owner returned must be rejected and must not be part of the owner\'s record (next build reuses the owner after that path was deleted); in (a) every owner first makes every query itself and in '
             'half of (b) the owner makes the straggler\'s very call before forking, so late calls REPEAT observations the '
             'same instance already recorded (a memo of recorded observations must not bypass the fence); evaluations = late calls + schedules judged; '
             'distinct_nontrivial = distinct (owner kind, method, outcome, recorded?) x switch sequences'),
    'gates': ['orphan_late_calls', 'focused_lock_pairs', 'base_exception_late_calls', 'primed_straggler_runs', 'complex_stragglers', 'complex_straggler_after_close', 'spanning_raise_runs', 'spanning_raise_next_build_probes', 'late_calls', 'root_late_calls', 'straggler_schedules', 'straggler_ok_recorded',
              'straggler_rejected', 'straggler_single_layers', 'next_build_probes'],
}

KINDS = {'result', 'tree', 'issue', 'query', 'tmp_leftover', 'foreign_event', 'foreign_changed'}
QUERY_METHODS = ['is_file', 'exists', 'get_size', 'read_text', 'read_binary', 'declare_read', 'list_dir', 'walk',
                 'is_dir']


# ------------------------------------------------------------------ (a) sequential
def seq_program(owner_raises, from_inside):
    # every owner first makes every query itself (both comparison modes for reads), so that each late
    # call REPEATS a call the same builder instance has already executed and recorded (a memo of
    # "already recorded" observations must not bypass the fence)
    own = [['q', k, 'in0', m] for k in ('exists', 'is_file', 'is_dir', 'get_size', 'list_dir', 'walk')
           for m in ('M',)] + [['q', k, 'in0', m] for k in ('read_text', 'read_binary', 'declare_read')
                               for m in ('M', 'H')]
    S = [['x', 'stash', 's']] + own + ([['raise', 'S']] if owner_raises else [])
    F = [['x', 'stash', 'f']] + own + [['write', '']] + ([['raise', 'F']] if owner_raises else [])
    lates = []
    for m in METHODS:
        for who in ('s', 'f'):
            path = 'in0' if m not in ('build_file', 'build_file_with_comparison') else 'late/out_%s_%s' % (who, m[:12])
            lates.append(['x', 'late', who, m, path])
    funcs = {'S': {'kind': 'sb', 'idx': 1, 'body': S}, 'F': {'kind': 'bf', 'idx': 2, 'body': F},
             'G': {'kind': 'bf', 'idx': 5, 'body': [['write', 'g']]},
             'LATE': {'kind': 'sb', 'idx': 6, 'body': [['q', 'is_file', 'in0', 'M']]}}
    after = [['bf', 'late/out_s_build_file', 'G', {'catch': True}],
             ['bf', 'late/out_f_build_file_w', 'G', {'catch': True}],
             ['sb', 'LATE', {'catch': True, 'args': ['in0']}]]
    if from_inside:
        funcs['H'] = {'kind': 'sb', 'idx': 0, 'body': lates + [['q', 'is_file', 'in0', 'M']]}
        mid = [['sb', 'H', {'catch': True}]]
    else:
        mid = lates
    root = [['x', 'stash', 'root']] + own + [['sb', 'S', {'catch': True}], ['bf', 'o/x', 'F', {'catch': True}]] + mid + after
    return {'funcs': funcs, 'roots': [root]}


def run_sequential(sh, rng):
    for owner_raises in (False, True):
        for from_inside in (False, True):
            program = seq_program(owner_raises, from_inside)
            with Scratch('l') as sc:
                w = World(sc, 'k/cache.gz' if rng.random() < 0.3 else 'cache.gz')
                w.ext_write('in0', b'input zero')
                holder = {}

                def after_api(rctx, sr):
                    holder['ctx'] = rctx
                for rnd in range(3):
                    sr = w.build(program, program['roots'][0], {}, label=0, hooks={'after_api': after_api})
                    sh.evaluations += 1
                    account_build(sh, sr)
                    n = getattr(sr.rctx, 'late_calls', 0)
                    sh.count('late_calls', n)
                    sh.evaluations += n
                    sh.nt(('seq', owner_raises, from_inside, rnd))
                    bad = False
                    for d in sr.divs:
                        sh.count('div:' + d['kind'])
                        if d['kind'] in KINDS | {'extra_invocation'}:
                            sh.violation(signature(d) + '|late-seq', detail(d), case_of(w, program))
                            bad = True
                    if bad or sr.divs:
                        break
                    # root builder after build() returned
                    rb = sr.rctx.stash.get('root')
                    pre = env.snapshot(w.sb)
                    mon = FsMonitor(w.sb, w.tmp)
                    with mon:
                        mon.set_phase('after-build')
                        for m in METHODS:
                            invoked = []
                            path = 'in0' if 'build_file' not in m else 'late/root_%s' % m[:12]
                            try:
                                v = call_method(sr.rctx, rb, m, path, invoked)
                                out = 'ok'
                            except RuntimeError:
                                out = 'RuntimeError'
                            except Exception as e:
                                out = e.__class__.__name__
                            sh.count('root_late_calls')
                            sh.evaluations += 1
                            if out != 'RuntimeError' or invoked:
                                sh.violation('root_builder_usable_after_build|%s|%s' % (m, out),
                                             {'method': m, 'outcome': out, 'invoked': bool(invoked)},
                                             case_of(w, program))
                    if mon.lib_mutations() or env.snapshot(w.sb) != pre:
                        sh.violation('root_builder_late_call_has_effect',
                                     {'events': [e['ev'] for e in mon.lib_mutations()][:4]}, case_of(w, program))
                    if rnd == 0:
                        w.ext_write('in0', b'changed input')
    if len(sh.samples) < 1:
        sh.sample({'program': seq_program(False, False), 'note': 'sequential matrix (a)'})


# ------------------------------------------------------------------ (a') owner exits with a BaseException
class _BaseBoom(BaseException):
    pass


def run_base_exception_cases(sh):
    """the owner function leaves with an exception that is not an Exception (SystemExit, KeyboardInterrupt,
    GeneratorExit, a BaseException subclass) and its caller catches it: the builder that was passed to it
    is fenced all the same.  Only the fence is judged here (no model: what else the library does with
    such exits is not the subject of C17)."""
    from ..env import FileBuilder
    for owner in ('bf', 'sb', 'root'):
        for exc_cls in (SystemExit, KeyboardInterrupt, GeneratorExit, _BaseBoom):
            with Scratch('e') as sc:
                sb = sc.sb
                probe = os.path.join(sb, 'probe')
                env.write_file(probe, b'probe')
                stash = {}

                def fn(b, *a):
                    stash['b'] = b
                    if owner == 'bf':
                        env.write_file(a[0], b'out')
                    b.is_file(probe)
                    f = b.read_binary(probe)
                    f.close()
                    raise exc_cls()

                def root(b):
                    if owner == 'root':
                        return fn(b)
                    try:
                        if owner == 'bf':
                            b.build_file(os.path.join(sb, 'o', 'x'), 'F', fn)
                        else:
                            b.subbuild('S', fn)
                    except BaseException:   # noqa: the caller deliberately survives the exit
                        pass
                    return late_calls('inside-build')

                def late_calls(when):
                    bad = []

                    class Ctx:
                        @staticmethod
                        def ap(r):
                            return os.path.join(sb, r) if r else sb
                    for m in METHODS:
                        invoked = []
                        path = 'probe' if 'build_file' not in m else 'late/%s_%s' % (when, m[:12])
                        try:
                            call_method(Ctx, stash['b'], m, path, invoked)
                            out = 'ok'
                        except RuntimeError:
                            out = 'RuntimeError'
                        except BaseException as e:  # noqa
                            out = e.__class__.__name__
                        sh.count('base_exception_late_calls')
                        sh.evaluations += 1
                        if out != 'RuntimeError' or invoked:
                            bad.append((m, out, bool(invoked)))
                    if bad:
                        sh.violation('builder_usable_after_base_exception|%s|%s' % (owner, bad[0][0]),
                                     {'owner': owner, 'exception': exc_cls.__name__, 'when': when, 'calls': bad[:5]},
                                     {'kind': 'c17-base-exception', 'owner': owner, 'exception': exc_cls.__name__})
                    return None
                try:
                    FileBuilder.build(os.path.join(sb, 'cache.gz'), 'n', root)
                except BaseException:   # noqa
                    pass
                if 'b' in stash:
                    late_calls('after-build')
                sh.nt(('base-exc', owner, exc_cls.__name__))


def run_orphan_cases(sh):
    """two exits at once: a thread calls build_file on a subbuild's builder; the subbuild's function returns
    (the parent record is closed) while the build_file function G is still running; then G leaves with an
    Exception or with a BaseException that is not an Exception.  The builder that was passed to G is fenced
    all the same.  Forced with events; fence only."""
    import threading
    from ..env import FileBuilder

    class Boom(Exception):
        pass
    for exc_cls in (None, Boom, SystemExit, KeyboardInterrupt, _BaseBoom):
        with Scratch('o') as sc:
            sb = sc.sb
            probe = os.path.join(sb, 'probe')
            env.write_file(probe, b'probe')
            stash, res = {}, {}
            g_started, owner_done = threading.Event(), threading.Event()

            def g(b2, filename):
                stash['g'] = b2
                env.write_file(filename, b'g')
                b2.is_file(probe)
                g_started.set()
                owner_done.wait(10)
                if exc_cls is not None:
                    raise exc_cls()

            def worker(b):
                try:
                    b.build_file(os.path.join(sb, 'o', 'x'), 'G', g)
                    res['t'] = 'returned'
                except BaseException as e:  # noqa
                    res['t'] = type(e).__name__

            def s_fn(b):
                t = threading.Thread(target=worker, args=(b,), daemon=True)
                stash['thread'] = t
                t.start()
                g_started.wait(10)
                return 1        # the owner returns while G is still running

            def root(b):
                b.subbuild('S', s_fn)
                owner_done.set()
                stash['thread'].join(10)
                return late('inside-build')

            def late(when):
                bad = []

                class Ctx:
                    @staticmethod
                    def ap(r):
                        return os.path.join(sb, r) if r else sb
                if 'g' not in stash:
                    return None
                for m in METHODS:
                    invoked = []
                    path = 'probe' if 'build_file' not in m else 'late/%s_%s' % (when, m[:12])
                    try:
                        call_method(Ctx, stash['g'], m, path, invoked)
                        out = 'ok'
                    except RuntimeError:
                        out = 'RuntimeError'
                    except BaseException as e:  # noqa
                        out = e.__class__.__name__
                    sh.count('orphan_late_calls')
                    sh.evaluations += 1
                    if out != 'RuntimeError' or invoked:
                        bad.append((m, out, bool(invoked)))
                if bad:
                    sh.violation('builder_usable_after_exit_under_closed_parent|%s' % bad[0][0],
                                 {'exception': getattr(exc_cls, '__name__', 'returned'), 'when': when, 'calls': bad[:5],
                                  'thread_outcome': res.get('t')},
                                 {'kind': 'c17-orphan', 'exception': getattr(exc_cls, '__name__', 'returned')})
                return None
            try:
                FileBuilder.build(os.path.join(sb, 'cache.gz'), 'n', root)
            except BaseException:   # noqa
                pass
            owner_done.set()
            late('after-build')
            sh.nt(('orphan', getattr(exc_cls, '__name__', 'returned'), res.get('t')))


# ------------------------------------------------------------------ (b) stragglers
def straggler_program(owner, method):
    target = 'pd' if method in ('list_dir', 'walk', 'is_dir') else 'probe'
    if method in ('build_file', 'subbuild'):
        target = 'late/out'
    fork = ['x', 'fork_late', method, target, 't1']
    prime = owner.endswith('+p')
    if prime:
        # the owner makes the very same call itself before the straggler does: the straggler's call
        # repeats an observation this builder instance has already executed and recorded
        owner = owner[:-2]
    funcs = {}
    if owner == 'sb-bare':
        # the owner never uses its builder itself: the straggler's call is the first operation ever made
        # on that instance (whatever the instance creates lazily is created under the race)
        funcs['S'] = {'kind': 'sb', 'idx': 1, 'body': [fork]}
        root = [['sb', 'S', {'catch': True}], ['q', 'is_file', 'in0', 'M']]
    elif owner == 'bf-bare':
        funcs['F'] = {'kind': 'bf', 'idx': 1, 'body': [['write', ''], fork]}
        root = [['bf', 'o/x', 'F', {'catch': True}], ['q', 'is_file', 'in0', 'M']]
    elif owner == 'sb':
        funcs['S'] = {'kind': 'sb', 'idx': 1, 'body': [['q', 'exists', 'in0', 'M'], fork]}
        root = [['sb', 'S', {'catch': True}], ['q', 'is_file', 'in0', 'M']]
    elif owner == 'bf':
        funcs['F'] = {'kind': 'bf', 'idx': 1, 'body': [['q', 'exists', 'in0', 'M'], ['write', ''], fork]}
        root = [['bf', 'o/x', 'F', {'catch': True}], ['q', 'is_file', 'in0', 'M']]
    elif owner == 'sb-raises':
        funcs['S'] = {'kind': 'sb', 'idx': 1, 'body': [['q', 'exists', 'in0', 'M'], fork, ['raise', 'S']]}
        root = [['sb', 'S', {'catch': True}], ['q', 'is_file', 'in0', 'M']]
    elif owner == 'root':
        root = [['q', 'is_file', 'in0', 'M'], fork]
    else:
        # root-raises / root-commits: the root overwrites a foreign file first (so that the rollback /
        # commit has file-system work to do), forks the straggler and then raises / returns
        funcs['G'] = {'kind': 'bf', 'idx': 1, 'body': [['write', 'g']]}
        root = [['bf', 'ov/x', 'G', {'catch': True}], ['q', 'is_file', 'in0', 'M'], fork]
        if owner == 'root-raises':
            root.append(['raise', 'root'])
    if prime and method in QUERY_METHODS:
        pre = [['q', method, target, m] for m in (('M', 'H') if method in ('read_text', 'read_binary',
                                                                            'declare_read') else ('M',))]
        for body in [f['body'] for f in funcs.values()] + [root]:
            if fork in body:
                i = body.index(fork)
                body[i:i] = pre
    return {'funcs': funcs, 'roots': [root]}, target


def run_straggler(sh, rng, owner, method, strategy_list, free=False):
    program, target = straggler_program(owner, method)
    prime = owner.endswith('+p')
    if prime:
        owner = owner[:-2]
        sh.count('primed_straggler_runs')
    with Scratch('g') as sc:
        w = World(sc)
        w.ext_write('in0', b'input zero')
        w.ext_write('probe', b'probe file')
        w.ext_write('pd/inner', b'x')
        w.ext_write('ov/x', b'foreign file that the root overwrites')
        tok = w.save()
        try:
            for strategy in strategy_list:
                if sh.time_left() <= 0:
                    return None
                w.restore(tok, keep=True)
                s = None
                hooks = {}
                if not free:
                    s = sched.Scheduler(strategy)
                    run_straggler.last_sched = s
                    hooks = {'fork': s.fork, 'fs_yield': s.fs_yield, 'event_clock': True,
                             'after_api': lambda rctx, sr, s=s: s.join_all()}
                else:
                    def join_free(rctx, sr):
                        for t in getattr(rctx, 'free_threads', []):
                            t.join(10)
                    hooks = {'after_api': join_free, 'event_clock': True}
                opts = None
                if s is not None:
                    opts = {'schedule_fork': {k: (v if k != 'at' else {str(a): b for a, b in v.items()})
                                              for k, v in strategy.items()}}
                sr = w.build(program, program['roots'][0], {}, label=0, hooks=hooks, step_opts=opts)
                sh.evaluations += 1
                sh.count('straggler_schedules')
                case = case_of(w, program)
                if s is not None:
                    if s.timed_out:
                        sh.inconclusive.append('scheduler watchdog fired (straggler)')
                        continue
                    if s.deadlock:
                        sh.violation('deadlock|straggler|%s|%s' % (owner, method), {'info': s.deadlock_info}, case)
                        continue
                    if getattr(s, 'double_lock', None):
                        # the lock that fences the builder exists twice: the fence excludes nobody
                        sh.violation('lock_created_twice_for_one_object|%s' % s.double_lock['class'],
                                     dict(s.double_lock, owner=owner, method=method), case)
                        continue
                tag = '%s|%s%s' % (owner, method, '|repeats-own-call' if prime else '')
                bad = False
                complex_straggler = method in ('build_file', 'subbuild')
                for d in sr.divs:
                    sh.count('div:' + d['kind'])
                    if complex_straggler:
                        continue        # end state judged below, relative to when the call was invoked
                    if d['kind'] in KINDS:
                        sh.violation(signature(d) + '|straggler|' + tag, detail(d), case)
                        bad = True
                if bad or (sr.divs and not complex_straggler):
                    continue
                if not sr.rctx.stragglers:
                    sh.inconclusive.append('straggler did not run')
                    continue
                st = sr.rctx.stragglers[0]
                marks = sr.rctx.marks
                if owner.startswith('root'):
                    t_fret = [t for (k, wh, t) in marks if k == 'fret' and wh == ''][-1]
                    t_done = None          # build() returning is after every mark; handled by join order
                    # the fence must be up by the time the library starts its finalisation work
                    # (commit / rollback): first library file-system event after the root function
                    post = [e['clk'] for e in sr.mon.events if not e['user'] and e['phase'] == 'post-root'
                            and 'clk' in e and e['thread'] != sr.rctx.stragglers[0].get('thread')]
                    if post:
                        t_done = min(post)
                else:
                    t_fret = [t for (k, wh, t) in marks if k == 'fret' and wh != ''][0]
                    t_done = [t for (k, wh, t) in marks if k == 'done'][0]
                out = st['out']
                # the documented rejection is a RuntimeError; its message is not part of the contract
                finished_msg = out[0] == 'exc' and out[1] == 'RuntimeError'
                if complex_straggler:
                    sh.count('complex_stragglers')
                    late = t_done is not None and st['t_call'] > t_done
                    if late:
                        sh.count('complex_straggler_after_close')
                        evs = [e for e in sr.mon.events if e['thread'] == st.get('thread') and not e['user']
                               and e['ev'] not in ('os.listdir', 'os.scandir')]
                        exists = os.path.lexists(w.ap('late/out'))
                        if not finished_msg or st['invoked'] or evs or exists:
                            sh.violation('complex_call_after_close_has_effect|' + tag,
                                         {'straggler': {k: v for k, v in st.items() if k != 'thread'},
                                          't_close': t_done, 'events': [e['ev'] for e in evs][:4],
                                          'target_exists': exists}, case)
                    # a call that was invoked before the close but whose user function returned only after
                    # it: the record it belongs to is closed by then, so it cannot complete normally (for a
                    # root builder there is no list to append to - the fence is the only thing that stops it)
                    t_fn = st.get('t_fn_ret')
                    if t_done is not None and t_fn is not None and t_fn > t_done:
                        sh.count('complex_straggler_function_spans_close')
                        if out[0] == 'ok':
                            sh.violation('complex_call_completed_after_close|' + tag,
                                         {'straggler': {k: v for k, v in st.items() if k != 'thread'},
                                          't_close': t_done}, case)
                    sh.nt((owner, method, out[0], late, t_fn is not None and t_done is not None and t_fn > t_done))
                    continue
                recorded_expected = None
                if out[0] == 'ok':
                    # (a call that was attached under the builder's lock before the close may
                    # legitimately *return* after the owner's call returned)
                    recorded_expected = True
                    sh.count('straggler_ok_recorded')
                elif finished_msg:
                    recorded_expected = False
                    sh.count('straggler_rejected')
                else:
                    sh.violation('straggler_unexpected_exception|%s|%s' % (tag, out[1]), {'straggler': st}, case)
                    continue
                if t_done is not None and st['t_call'] > t_done and not finished_msg:
                    sh.violation('call_after_close_not_rejected|' + tag, {'straggler': st}, case)
                    continue
                if s is not None and s.preemptions:
                    sh.nt((owner, method, prime, out[0], s.signature()))
                else:
                    sh.nt((owner, method, prime, out[0]))
                # rule 3/4: is the observation part of the record?
                if owner in ('sb', 'bf', 'sb-bare', 'bf-bare') and not prime and (free or rng.random() < 0.5):
                    if target == 'probe':
                        w.ext_delete('probe')
                    else:
                        w.ext_write('pd/added', b'new entry') if method != 'is_dir' else w.ext_delete('pd')
                    sr2 = w.build(program, program['roots'][0], {}, label=0, threads=False,
                                  hooks={'after_api': (lambda rctx, sr: [t.join(10) for t in
                                                                         getattr(rctx, 'free_threads', [])])})
                    sh.count('next_build_probes')
                    inv = [f for (_t, _k, f) in sr2.rctx.log]
                    owner_fn = 'S' if owner.startswith('sb') else 'F'
                    if recorded_expected and owner_fn not in inv:
                        sh.violation('completed_observation_missing_from_record|' + tag,
                                     {'straggler': st, 'invoked_next': inv}, case_of(w, program))
                    elif recorded_expected is False and owner_fn in inv:
                        sh.violation('rejected_observation_attached_to_record|' + tag,
                                     {'straggler': st, 'invoked_next': inv}, case_of(w, program))
                if len(sh.samples) < 3 and s is not None and s.preemptions:
                    sh.sample({'owner': owner, 'method': method, 'straggler': st, 't_fret': t_fret,
                               't_done': t_done, 'switches': s.switches[:5]})
            return True
        finally:
            w.discard(tok)


def run_spanning_raise(sh):
    """A nested subbuild / build_file is invoked on the owner's builder by another thread BEFORE the owner
    returns; its function is still running when the owner's call returns (the record is closed), then makes
    an observation nobody else makes and raises.  Real threads, ordered by events (no scheduler): the call
    must be rejected with RuntimeError and - rule (4) - must not be part of the owner's record: changing the
    path only it observed forces nothing in the next build."""
    for owner in ('sb', 'bf'):
        for method in ('subbuild_raise', 'build_file_raise'):
            fork = ['x', 'fork_late', method, 'late/out', 't1']
            if owner == 'sb':
                funcs = {'S': {'kind': 'sb', 'idx': 1, 'body': [['q', 'exists', 'in0', 'M'], fork]}}
                root = [['sb', 'S', {'catch': True}], ['x', 'late_release'], ['q', 'is_file', 'in0', 'M']]
            else:
                funcs = {'F': {'kind': 'bf', 'idx': 1, 'body': [['q', 'exists', 'in0', 'M'], ['write', ''], fork]}}
                root = [['bf', 'o/x', 'F', {'catch': True}], ['x', 'late_release'], ['q', 'is_file', 'in0', 'M']]
            program = {'funcs': funcs, 'roots': [root]}
            tag = 'spanning|%s|%s' % (owner, method)
            with Scratch('g') as sc:
                w = World(sc)
                w.ext_write('in0', b'input zero')
                w.ext_write('probe', b'probe file')

                def join_free(rctx, sr):
                    for t in getattr(rctx, 'free_threads', []):
                        t.join(20)
                hooks = {'after_api': join_free, 'event_clock': True}
                sr = w.build(program, program['roots'][0], {}, label=0, hooks=hooks)
                sh.evaluations += 1
                case = case_of(w, program)
                if not sr.rctx.stragglers:
                    sh.inconclusive.append('spanning straggler did not run')
                    continue
                st = sr.rctx.stragglers[0]
                view = {k: v for k, v in st.items() if k != 'thread'}
                t_done = [t for (k, wh, t) in sr.rctx.marks if k == 'done'][0]
                if st.get('fn_timeout') or st.get('t_fn_ret') is None or st['t_fn_ret'] <= t_done:
                    sh.inconclusive.append('spanning straggler was not ordered as intended')
                    continue
                sh.count('spanning_raise_runs')
                out = st['out']
                if out[0] == 'ok':
                    sh.violation('complex_call_completed_after_close|' + tag, {'straggler': view}, case)
                    continue
                if out[1] != 'RuntimeError':
                    sh.violation('straggler_unexpected_exception|%s|%s' % (tag, out[1]), {'straggler': view}, case)
                    continue
                bad = [d for d in sr.divs if d['kind'] in KINDS]
                if bad:
                    sh.violation(signature(bad[0]) + '|' + tag, detail(bad[0]), case)
                    continue
                sh.nt(('spanning', owner, method, out[1]))
                w.ext_delete('probe')
                sr2 = w.build(program, program['roots'][0], {}, label=0, threads=False, hooks={'after_api': join_free})
                sh.count('spanning_raise_next_build_probes')
                inv = [f for (_t, _k, f) in sr2.rctx.log]
                if ('S' if owner == 'sb' else 'F') in inv:
                    sh.violation('rejected_observation_attached_to_record|' + tag,
                                 {'straggler': view, 'invoked_next': inv}, case_of(w, program))


def run_shard(sh):
    rng = random.Random((sh.seed * 1000003 + sh.idx) & 0xffffffff)
    sched.install()
    if sh.idx % 4 == 0:
        run_sequential(sh, rng)
    if sh.idx % 4 == 1:
        run_base_exception_cases(sh)
    if sh.idx % 4 == 2:
        run_orphan_cases(sh)
    if sh.idx % 4 == 3:
        run_spanning_raise(sh)
    combos = [(o, m) for o in ('sb', 'bf', 'sb-raises', 'root') for m in QUERY_METHODS] + \
        [(o + '+p', m) for o in ('sb', 'bf', 'sb-raises', 'root') for m in QUERY_METHODS] + \
        [(o, m) for o in ('sb-bare', 'bf-bare') for m in QUERY_METHODS] + \
        [(o, m) for o in ('root-raises', 'root-commits', 'sb', 'bf') for m in ('build_file', 'subbuild', 'is_file')] * 2
    rng.shuffle(combos)
    i = 0
    while sh.time_left() > 0:
        owner, method = combos[(sh.idx + i) % len(combos)]
        i += 1
        # baseline to learn the number of yield points
        program, _ = straggler_program(owner, method)
        probe = sched.Scheduler({'kind': 'none'})
        r = run_straggler(sh, rng, owner, method, [{'kind': 'none'}])
        if r is None:
            break
        # number of yield points: run once more privately to read the step counter
        n = measure(owner, method)
        single = [{'kind': 'preempt', 'at': {k: 0}} for k in range(1, n + 1)]
        if run_straggler(sh, rng, owner, method, single) is not None:
            sh.count('straggler_single_layers')
        pairs = []
        for _ in range(30 if sh.tier == 'quick' else 600):
            k1, k2 = sorted(rng.sample(range(1, n + 2), 2))
            pairs.append({'kind': 'preempt', 'at': {k1: 0, k2: 0}})
        # focused pairs: hand the baton to the straggler shortly after it was forked (k1) and take it back
        # at one of ITS first schedule points (k1 + j): the straggler is suspended in the middle of its
        # first operation on the builder while the owner returns
        # focused pairs: hand the baton to the straggler shortly after it was forked (k1) and take it back
        # at one of ITS synchronisation operations (lock creation / acquire / release, learned from a probe
        # run with the single pre-emption k1): the straggler is suspended in the middle of its call while
        # the owner returns and closes
        f0 = getattr(measure, 'fork_step', 0)
        k1s = list(range(f0 + 1, min(n, f0 + 45)))
        if sh.tier == 'quick':
            k1s = rng.sample(k1s, min(len(k1s), 5))
        for k1 in k1s:
            if run_straggler(sh, rng, owner, method, [{'kind': 'preempt', 'at': {k1: 0}}]) is None:
                break
            ls = getattr(run_straggler, 'last_sched', None)
            lock_steps = [st for (st, idx, _kind) in getattr(ls, 'lock_trace', []) if idx not in (0, None) and st > k1][:8]
            for st in lock_steps:
                pairs.append({'kind': 'preempt', 'at': {k1: 0, st: 0}})
                sh.count('focused_lock_pairs')
        rnd = [{'kind': rng.choice(['random', 'pct']), 'p': rng.choice([0.05, 0.2]), 'd': rng.randint(1, 3),
                'n': n, 'seed': rng.randrange(10 ** 9)} for _ in range(15 if sh.tier == 'quick' else 300)]
        run_straggler(sh, rng, owner, method, pairs + rnd)
        run_straggler(sh, rng, owner, method, [None] * (3 if sh.tier == 'quick' else 30), free=True)
    sh.exhaustive = sh.counters.get('straggler_single_layers', 0) > 0


def measure(owner, method):
    program, target = straggler_program(owner, method)
    with Scratch('g') as sc:
        w = World(sc)
        w.ext_write('in0', b'input zero')
        w.ext_write('probe', b'probe file')
        w.ext_write('pd/inner', b'x')
        w.ext_write('ov/x', b'foreign file that the root overwrites')
        s = sched.Scheduler({'kind': 'none'})
        w.build(program, program['roots'][0], {}, label=0,
                hooks={'fork': s.fork, 'fs_yield': s.fs_yield, 'after_api': lambda rctx, sr: s.join_all()})
        measure.fork_step = (getattr(s, 'fork_steps', None) or [0])[0]
        return s.step
