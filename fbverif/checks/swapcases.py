"""Directed file<->directory swap matrix shared by C01/C02/C03/C10/C12: a prior
build records a created directory `d` (holding d/x) and an output file `o`; an
external step replaces/deletes/plants at exactly those recorded paths; the main
build targets exactly those paths again (file at the former directory position,
directory at the former output position, same targets with another/the same
function, deeper) and succeeds, fails at the end, fails in a nested function, or
is crashed at every program point.  Random histories reach these coincidences
only rarely."""
from .common import signature, detail, case_of, account_build
from ..env import Scratch
from ..world import World
from ..replay import build_kwargs

MAIN = {
    'file-at-dir': [['bf', 'd', 'F', {'catch': False}]],
    'dir-at-output': [['bf', 'o/y', 'F', {'catch': False}]],
    'same-targets-other-func': [['bf', 'd/x', 'F', {'catch': False}], ['bf', 'o', 'F', {'catch': False}]],
    'same-targets-same-func': [['bf', 'd/x', 'G', {'catch': False}], ['bf', 'o', 'G', {'catch': False}]],
    'deeper': [['bf', 'd/z/w', 'F', {'catch': False}], ['bf', 'o', 'G', {'catch': False}]],
    'both-swapped': [['bf', 'd', 'F', {'catch': False}], ['bf', 'o/y', 'F', {'catch': False}]],
}
EXT = ['none', 'dir->file', 'output->emptydir', 'output->dir+content', 'delete-dir', 'delete-output',
       'plant-in-dir', 'tamper-output', 'dir->file+output->dir', 'delete-cache']
FAIL = ['ok', 'root-raises-last', 'nested-raises', 'caught-nested-raise']


def program_for(main, fail):
    funcs = {'G': {'kind': 'bf', 'idx': 5, 'body': [['q', 'read_text', 'in0', 'M'], ['write', 'g']]},
             'F': {'kind': 'bf', 'idx': 6, 'body': [['q', 'read_text', 'in0', 'M'], ['write', 'f']]},
             'Fbad': {'kind': 'bf', 'idx': 7, 'body': [['write', 'bad'], ['raise', 'Fbad']]}}
    prior = [['bf', 'd/x', 'G', {'catch': False}], ['bf', 'o', 'G', {'catch': False}]]
    body = [list(s) for s in MAIN[main]]
    probes = [['q', 'walk', '', 'M'], ['q', 'is_file', 'd', 'M'], ['q', 'is_dir', 'o', 'M']]
    if fail == 'root-raises-last':
        body = body + probes + [['raise', 'root']]
    elif fail == 'nested-raises':
        body = body + [['bf', 'e/bad', 'Fbad', {'catch': False}]] + probes
    elif fail == 'caught-nested-raise':
        body = body + [['bf', 'e/bad', 'Fbad', {'catch': True}]] + probes
    else:
        body = body + probes
    return {'funcs': funcs, 'roots': [prior, body]}


def apply_ext(w, ext):
    if ext == 'dir->file' or ext == 'dir->file+output->dir':
        w.ext_delete('d')
        w.ext_write('d', b'foreign file at former dir')
    if ext == 'output->emptydir' or ext == 'dir->file+output->dir':
        w.ext_delete('o')
        w.ext_mkdir('o')
    if ext == 'output->dir+content':
        w.ext_delete('o')
        w.ext_write('o/foreign', b'foreign content')
    if ext == 'delete-dir':
        w.ext_delete('d')
    if ext == 'delete-output':
        w.ext_delete('o')
    if ext == 'plant-in-dir':
        w.ext_write('d/zz', b'planted')
    if ext == 'tamper-output':
        w.ext_write('o', b'tampered output')
    if ext == 'delete-cache':
        w.ext_delete_cache()


def all_cases():
    return [(m, e, f) for m in MAIN for e in EXT for f in FAIL]


def run_swap_cases(sh, select, tag, crash_points=False, nested_cache=False, share=None):
    """run this shard's share of the matrix; select(d) picks the divergences of the calling check"""
    cases = all_cases()
    mine = cases[sh.idx::sh.n] if share is None else share
    for (main, ext, fail) in mine:
        if sh.time_left() <= 0:
            return False
        program = program_for(main, fail)
        with Scratch('w') as sc:
            w = World(sc, 'k/cache.gz' if nested_cache else 'cache.gz')
            w.ext_write('in0', b'input zero')
            w.ext_write('keep/foreign', b'unrelated foreign file')

            def judge(sr, phase):
                bad = False
                for d in sr.divs:
                    sh.count('div:' + d['kind'])
                    if select(d):
                        sh.violation(signature(d) + '|swap:%s|%s' % (main, phase),
                                     dict(detail(d), ext=ext, fail=fail), case_of(w, program))
                        bad = True
                return bad or bool(sr.divs)
            sr = w.build(program, program['roots'][0], {}, label=0)
            if judge(sr, 'prior'):
                continue
            apply_ext(w, ext)
            if fail == 'ok':
                # clean right after the external step (recorded paths replaced by the other kind)
                tokc = w.save()
                c0 = w.clean(build_name=None if main == 'deeper' else '__same__')
                sh.count('swap_clean_probes')
                judge(c0, 'clean-after-ext')
                w.restore(tokc)
            plans = [None]
            tok = None
            if crash_points and fail == 'ok':
                tok = w.save()
                dry = w.build(program, program['roots'][1], {}, label=1)
                if dry.divs:
                    judge(dry, 'main')
                    w.discard(tok)
                    continue
                plans = [{'crash_at': k} for k in range(1, dry.rctx.npoints + 1)]
            try:
                for plan in plans:
                    if tok is not None:
                        w.restore(tok, keep=True)
                    kw = build_kwargs(plan, w) if plan else {}
                    sr = w.build(program, program['roots'][1], {}, label=1 if not plan else 'crash',
                                 step_opts=plan, **kw)
                    sh.evaluations += 1
                    sh.count('swap_cases')
                    if not sr.committed:
                        sh.count('swap_cases_rolled_back')
                    account_build(sh, sr)
                    sh.nt(('swap', main, ext, fail, bool(plan)))
                    if judge(sr, 'main'):
                        continue
                    # the next (fault-free, non-raising) build and clean
                    nxt = program_for(main, 'ok')
                    program['roots'].append(nxt['roots'][1])
                    sr2 = w.build(program, program['roots'][-1], {}, label=len(program['roots']) - 1)
                    program['roots'].pop()
                    if judge(sr2, 'next'):
                        continue
                    c = w.clean()
                    judge(c, 'clean')
            finally:
                if tok is not None:
                    w.discard(tok)
    return True
