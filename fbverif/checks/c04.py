"""C04 virtual file-system view = from-scratch view, and internally consistent."""
import random

from .common import run_histories
from ..gen import GenCfg, gen_program, rand_path
from .. import burst  # noqa: F401  (registers the statement)

CONFIG = {
    'level': 'exploration',
    'budget': {'quick': 35, 'thorough': 600},
    'rule': ('random programs with nested build_file calls that succeed / fail before writing / fail '
             'after writing / do not create, over histories with stale outputs, stale directories '
             'holding foreign files and swaps; every query answer (value or OSError subclass) of every '
             'executed function is compared with the reference model at the same program point; in '
             'addition probe bursts (all query kinds x ~20 universe paths, at random points before / '
             'inside / after nested calls) are checked against model-free consistency laws (exists = '
             'is_file|is_dir, list_dir = children that exist, walk = recursive list_dir/is_dir/is_file, '
             'parent of existing is a directory, read ok <=> is_file, error classes); evaluations = '
             'builds judged; distinct_nontrivial = distinct (program shape, step kinds) histories with '
             '>=1 hit and >=1 miss; queries_judged / law_evals are in counters'),
    'gates': ['overlay_cases', 'queries_judged', 'bursts', 'law_evals', 'builds_committed', 'raised_calls',
              'setup_failures'],
}

KINDS = {'query'}


def select(d):
    if d['kind'] == 'query':
        return True
    if d['kind'] == 'issue' and str(d.get('issue', '')).startswith(('law:', 'walk_', 'list_dir_shape', 'bool_shape')):
        return True
    return False


def add_bursts(rng, cfg, program):
    names = cfg.names
    base = [''] + names + [a + '/' + b for a in names for b in names]
    bodies = [f['body'] for f in program['funcs'].values()] + program['roots']
    for _ in range(rng.randint(1, 3)):
        body = rng.choice(bodies)
        paths = sorted(set(rng.sample(base, 8) + [rand_path(rng, cfg) for _ in range(4)] + ['']))
        body.insert(rng.randint(0, len(body)), ['x', 'burst', paths])
    return program


def run_shard(sh):
    import fbverif.checks.common as common
    orig = common.gen_program

    def gp(rng, cfg):
        return add_bursts(rng, cfg, orig(rng, cfg))
    from .overlaycases import run_overlay_cases
    run_overlay_cases(sh, select, stride=2 if sh.tier == 'quick' else 1)
    common.gen_program = gp
    try:
        def after_build(w, program, sr, ctx):
            sh.count('bursts', getattr(sr.rctx, 'bursts', 0))
            sh.count('law_evals', getattr(sr.rctx, 'law_evals', 0))
            return False
        run_histories(sh, select=select, steps_range=(3, 6) if sh.tier == 'quick' else (5, 10),
                      nested_prob=0.25, fail_prob=0.1, after_build=after_build,
                      make_cfg=lambda rng: GenCfg(p_raise=0.18, p_nocreate=0.1, p_awkward=0.02),
                      mut_weights={'write': 4, 'modify': 2, 'delete': 3, 'mkdir': 2, 'touch': 0.5,
                                   'recreate': 0.5, 'swap': 2, 'tamper_output': 1.5,
                                   'delete_output': 1.5, 'plant_in_created': 3, 'delcache': 0.3})
    finally:
        common.gen_program = orig
