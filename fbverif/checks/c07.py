"""C07 cache identity = JSON equality of name, path and arguments."""
import json
import os
import pathlib
import random
import unicodedata

from .. import env
from ..env import FileBuilder, Scratch
from ..jsonref import canon, roundtrip, type_exact_equal, shares_mutable
from ..values import sized_values, rand_value, near_misses

CONFIG = {
    'level': 'exploration',
    'budget': {'quick': 30, 'thorough': 480},
    'rule': ('pairs (call1, call2) of subbuild / build_file calls, 40 pairs batched per build under distinct '
             'function names: build A issues call1; build B issues call2 (must be a cache hit iff same entry) and '
             'then call1 again (RuntimeError duplicate iff same entry as call2, otherwise a hit); oracle = '
             'independent JSON equality (tuples=lists, stringified keys, key order irrelevant, list order relevant, '
             '1==1.0, bool!=number) and, for build_file, equality of the canonical absolute path under '
             'spellings (relative to cwd, bytes, PathLike, //, /./, x/../, trailing /) vs genuinely different '
             'paths (sibling, case, NFC/NFD); the arguments each function received are compared type-exactly '
             'with the JSON round trip and checked for aliasing; pairs: ALL ordered pairs of values with <=2 '
             'nodes over the 13 collision atoms (exhaustive layer, split over shards) + output-guided pairs (the '
             'library\'s own key encoding of a value re-read as the other container kinds with/without its leading '
             'tag, values.mined_candidates) + near-miss mutants of random deeper values; evaluations = pairs judged; distinct_nontrivial = distinct pairs that are '
             'JSON-equal but not identical, or near-misses (Python-== / one-edit apart) that are not JSON-equal'),
    'exhaustive_layer': 'subbuild: (1) all ordered pairs of values with <=2 nodes over the 13 atoms as one positional argument; (2) all ordered pairs of (args, kwargs) shapes with <=2 positionals over {1,"a","0"} and keyword sets over keys {"a","0"} (args/kwargs boundary)',
    'gates': ['mined_pairs', 'cross_pairs_done', 'pairs_sb', 'pairs_bf', 'expected_hit', 'expected_miss', 'expected_dup', 'spelling_pairs',
              'received_checked'],
}

BATCH = 40


def jdump(v):
    try:
        return json.dumps(v, default=repr)[:160]
    except Exception:
        return repr(v)[:160]


class Case:
    """one pair"""

    def __init__(self, kind, a1, k1, a2, k2, sp1=None, sp2=None, same_path=True, tag=''):
        self.kind = kind
        self.a1, self.k1, self.a2, self.k2 = a1, k1, a2, k2
        self.sp1, self.sp2, self.same_path = sp1, sp2, same_path
        self.tag = tag
        try:
            self.eq = canon(roundtrip(list(a1))) == canon(roundtrip(list(a2))) and \
                canon(roundtrip(k1)) == canon(roundtrip(k2))
        except TypeError:
            self.eq = None


SPELLINGS = ['plain', 'rel', 'bytes', 'pathlike', 'dslash', 'dot', 'dotdot', 'trail']


def spell(p, sp, cwd):
    if sp == 'plain':
        return p
    if sp == 'rel':
        return os.path.relpath(p, cwd)
    if sp == 'bytes':
        return os.fsencode(p)
    if sp == 'pathlike':
        return pathlib.PurePosixPath(p)
    if sp == 'dslash':
        d, b = os.path.split(p)
        return d + '//' + b
    if sp == 'dot':
        d, b = os.path.split(p)
        return d + '/./' + b
    if sp == 'dotdot':
        d, b = os.path.split(p)
        return d + '/zz/../' + b
    if sp == 'trail':
        return p + '/'
    raise ValueError(sp)


def run_batch(sh, cases, rng):
    """run builds A and B for a batch of cases and judge"""
    with Scratch('i') as sc:
        sb = sc.sb
        cache = os.path.join(sb, 'cache.gz')
        oldcwd = os.getcwd()
        os.chdir(sb)
        try:
            log = []
            recv = {}

            def make_sb(i, which):
                def fn(b, *args, **kwargs):
                    log.append((i, which))
                    recv[(i, which)] = (list(args), kwargs)
                    return {'i': i, 'args': list(args), 'kwargs': kwargs}
                return fn

            def make_bf(i, which):
                def fn(b, filename, *args, **kwargs):
                    log.append((i, which))
                    recv[(i, which)] = (list(args), kwargs, filename)
                    env.write_file(filename, ('out%d' % i).encode())
                    return {'i': i, 'args': list(args), 'kwargs': kwargs}
                return fn

            def path1(i, c):
                return os.path.join(sb, 'p%d' % i, 't')

            def path2(i, c):
                if c.same_path:
                    return path1(i, c)
                return {'sibling': os.path.join(sb, 'p%d' % i, 'u'),
                        'case': os.path.join(sb, 'p%d' % i, 'T'),
                        'nfd': os.path.join(sb, 'p%d' % i, unicodedata.normalize('NFD', 'té')),
                        'deeper': os.path.join(sb, 'p%d' % i, 't2', 't')}[c.diff]

            resA = {}
            resB = {}

            def call(b, i, c, which, second_phase):
                a, k = (c.a1, c.k1) if which == 1 else (c.a2, c.k2)
                try:
                    if c.kind == 'sb':
                        return ['ok', b.subbuild('P%d' % i, make_sb(i, (which, second_phase)), *a, **k)]
                    p = path1(i, c) if which == 1 else path2(i, c)
                    if which == 1 and c.sp1 == 'nfc':
                        p = os.path.join(sb, 'p%d' % i, unicodedata.normalize('NFC', 'té'))
                    sp = c.sp1 if which == 1 else c.sp2
                    if sp in SPELLINGS:
                        p = spell(p, sp, sb)
                    return ['ok', b.build_file(p, 'Q%d' % i, make_bf(i, (which, second_phase)), *a, **k)]
                except Exception as e:
                    return ['exc', type(e).__name__]

            def rootA(b):
                for i, c in enumerate(cases):
                    resA[i] = call(b, i, c, 1, 'A')
                return None

            def rootB(b):
                for i, c in enumerate(cases):
                    resB[i] = (call(b, i, c, 2, 'B'), call(b, i, c, 1, 'B2'))
                return None
            FileBuilder.build(cache, 'n', rootA)
            logA = set(log)
            log.clear()
            FileBuilder.build(cache, 'n', rootB)
            logB = set(log)
        finally:
            os.chdir(oldcwd)
        for i, c in enumerate(cases):
            sh.evaluations += 1
            sh.count('pairs_' + c.kind)
            detail = {'kind': c.kind, 'args1': jdump(c.a1), 'kwargs1': jdump(c.k1), 'args2': jdump(c.a2),
                      'kwargs2': jdump(c.k2), 'sp1': c.sp1, 'sp2': c.sp2, 'same_path': c.same_path,
                      'json_equal': c.eq, 'tag': c.tag}
            case = {'kind': 'c07', **detail}
            if c.eq is None:
                continue
            same_entry = c.eq and c.same_path
            # build A: call1 always runs
            if (i, (1, 'A')) not in logA or resA[i][0] != 'ok':
                sh.violation('first_call_not_executed', detail, case)
                continue
            # received arguments
            for key, (sent_a, sent_k) in (((i, (1, 'A')), (c.a1, c.k1)), ((i, (2, 'B')), (c.a2, c.k2))):
                if key in recv:
                    r = recv[key]
                    sh.count('received_checked')
                    if not type_exact_equal(r[0], roundtrip(list(sent_a))) or \
                            not type_exact_equal(r[1], roundtrip(sent_k)):
                        sh.violation('received_args_not_roundtrip', dict(detail, got=jdump(r[:2])), case)
                    if shares_mutable((sent_a, sent_k), (r[0], r[1])):
                        sh.violation('received_args_alias_caller', detail, case)
                    if c.kind == 'bf':
                        want = path1(i, c) if key[1][0] == 1 else path2(i, c)
                        if key[1][0] == 1 and c.sp1 == 'nfc':
                            want = os.path.join(sb, 'p%d' % i, unicodedata.normalize('NFC', 'té'))
                        if r[2] != want or r[2].__class__ is not str:
                            sh.violation('bf_received_path', dict(detail, got=repr(r[2]), want=want), case)
            r2, r1again = resB[i]
            ran2 = (i, (2, 'B')) in logB
            ran1again = (i, (1, 'B2')) in logB
            if c.kind == 'sb':
                exp_hit = c.eq
            else:
                exp_hit = same_entry
            if exp_hit:
                sh.count('expected_hit')
                if ran2:
                    sh.violation('%s_same_entry_but_reexecuted|%s' % (c.kind, c.tag), detail, case)
                elif r2[0] != 'ok' or not type_exact_equal(r2[1], resA[i][1]):
                    sh.violation('%s_hit_value_differs' % c.kind, dict(detail, a=jdump(resA[i]), b=jdump(r2)), case)
            else:
                sh.count('expected_miss')
                if not ran2:
                    sh.violation('%s_different_entry_but_served_from_cache|%s' % (c.kind, c.tag), detail, case)
            # call1 again in build B
            dup = c.eq if c.kind == 'sb' else c.same_path
            if dup:
                sh.count('expected_dup')
                if r1again != ['exc', 'RuntimeError'] or ran1again:
                    sh.violation('%s_duplicate_not_rejected|%s' % (c.kind, c.tag), dict(detail, got=jdump(r1again)), case)
            else:
                if r1again[0] != 'ok' or ran1again:
                    sh.violation('%s_distinct_entry_not_a_hit|%s' % (c.kind, c.tag), dict(detail, got=jdump(r1again)), case)
                elif not type_exact_equal(r1again[1], resA[i][1]):
                    sh.violation('%s_hit_value_differs' % c.kind, detail, case)
            if c.kind == 'bf' and (c.sp1 != 'plain' or c.sp2 != 'plain'):
                sh.count('spelling_pairs')
            # non-trivial pairs
            ident = jdump((c.a1, c.k1)) == jdump((c.a2, c.k2)) and repr((c.a1, c.k1)) == repr((c.a2, c.k2))
            if (c.eq and not ident) or (not c.eq and c.tag in ('near', 'pyeq')) or \
                    (c.kind == 'bf' and c.sp1 != c.sp2):
                sh.nt((c.kind, jdump(c.a1), jdump(c.k1), jdump(c.a2), jdump(c.k2), c.sp1, c.sp2, c.same_path))
        if len(sh.samples) < 2:
            c = cases[0]
            sh.sample({'kind': c.kind, 'args1': jdump(c.a1), 'args2': jdump(c.a2), 'kwargs1': jdump(c.k1),
                       'kwargs2': jdump(c.k2), 'spellings': [c.sp1, c.sp2], 'json_equal': c.eq,
                       'observed_build_B': jdump(resB[0])})


def run_shard(sh):
    rng = random.Random(sh.seed * 104729 + sh.idx)
    # ---- exhaustive layer: all ordered pairs of values with <= 2 nodes, as one positional argument
    vals = [v for v, size in sized_values(tuples=True, nonstr_keys=True) if size <= 2]
    pairs = [(a, b) for a in vals for b in vals]
    mine = pairs[sh.idx::sh.n]
    done = 0
    batch = []
    complete = True
    for a, b in mine:
        tag = 'pyeq'
        batch.append(Case('sb', [a], {}, [b], {}, tag=tag))
        if len(batch) == BATCH:
            run_batch(sh, batch, rng)
            batch = []
        done += 1
        if sh.time_left() < (8 if sh.tier == 'quick' else 60):
            complete = done == len(mine)
            break
    if batch:
        run_batch(sh, batch, rng)
    sh.exhaustive = complete and done == len(mine)
    sh.count('exhaustive_pairs_done', done)
    sh.count('exhaustive_pairs_total', len(mine))
    # ---- second exhaustive layer: the boundary between positional and keyword arguments.
    #      All ordered pairs of (args, kwargs) shapes with <= 2 positionals over {1, 'a', '0'} and
    #      keyword sets over the keys {'a', '0'}: the string atoms coincide with the key names, so
    #      an encoding that flattens args and kwargs into one sequence collides here.
    small = [1, 'a', '0']
    arg_shapes = [[]] + [[x] for x in small] + [[x, y] for x in small for y in small]
    kw_shapes = [{}] + [{k: v} for k in ('a', '0') for v in small] + \
        [{'a': v, '0': u} for v in small for u in small]
    shapes = [(a, k) for a in arg_shapes for k in kw_shapes]
    cross = [(x, y) for x in shapes for y in shapes]
    mine2 = cross[sh.idx::sh.n]
    done2 = 0
    batch = []
    for (a1, k1), (a2, k2) in mine2:
        if sh.time_left() < (5 if sh.tier == 'quick' else 40):
            break
        batch.append(Case('sb', a1, k1, a2, k2, tag='near'))
        done2 += 1
        if len(batch) == BATCH:
            run_batch(sh, batch, rng)
            batch = []
    if batch:
        run_batch(sh, batch, rng)
    sh.count('cross_pairs_done', done2)
    sh.count('cross_pairs_total', len(mine2))
    sh.exhaustive = sh.exhaustive and done2 == len(mine2)
    # ---- output-guided layer: for sanitized values the library's own key encoding (JsonUtil.to_hashable,
    #      what Cache.subbuild_key is built from) is re-read in every other plausible way
    #      (values.mined_candidates): a collision through the encoding's own tags is constructed
    from file_builder.json_util import JsonUtil
    from ..values import mined_candidates
    svals = [json.loads(json.dumps(v)) for v, size in sized_values(tuples=False, nonstr_keys=False) if size <= 3]
    rng2 = random.Random(sh.seed * 31 + sh.idx)
    mined = []
    for v in rng2.sample(svals, min(len(svals), 40 if sh.tier == 'quick' else 400)):
        for c in mined_candidates(JsonUtil.to_hashable, v, limit=12):
            try:
                json.dumps(c)
            except (TypeError, ValueError):
                continue
            mined.append((v, c))
    # the argument list and the keyword dict themselves re-read
    for a, k in ((['x'], {}), (['a', 1], {}), ([], {'a': 1}), ([[1]], {'k': [2]}), (['k', 1], {'j': 2})):
        for c in mined_candidates(JsonUtil.to_hashable, [a, k], limit=40):
            if isinstance(c, list) and len(c) == 2 and isinstance(c[0], list) and isinstance(c[1], dict) \
                    and all(isinstance(x, str) for x in c[1]):
                mined.append(((a, k), (c[0], c[1])))
    # permuted insertion orders of keys that tie under the usual normalisations
    import itertools
    KEYPOOL = ['a', 'A', unicodedata.normalize('NFC', 'é'), unicodedata.normalize('NFD', 'é'), '1', '01', '', ' ']
    for ks in itertools.combinations(KEYPOOL, 2):
        d1, d2 = {ks[0]: 1, ks[1]: 2}, {ks[1]: 2, ks[0]: 1}
        mined.append((([], d1), ([], d2)))
        mined.append((([d1], {}), ([d2], {})))
    for ks in itertools.combinations(KEYPOOL, 3):
        perms = list(itertools.permutations(ks))
        d1 = {k: i for i, k in enumerate(ks)}
        for pm in rng2.sample(perms[1:], 2):
            mined.append((([d1], {}), ([{k: d1[k] for k in pm}], {})))
    batch = []
    for x, y in mined:
        if sh.time_left() < (4 if sh.tier == 'quick' else 30):
            break
        if isinstance(x, tuple):
            batch.append(Case('sb', x[0], x[1], y[0], y[1], tag='mined'))
        else:
            batch.append(Case('sb', [x], {}, [y], {}, tag='mined'))
        sh.count('mined_pairs')
        if len(batch) == BATCH:
            run_batch(sh, batch, rng)
            batch = []
    if batch:
        run_batch(sh, batch, rng)
    # ---- random deeper values, near misses, kwargs, build_file with spellings
    while sh.time_left() > 0:
        batch = []
        for _ in range(BATCH):
            kind = 'bf' if rng.random() < 0.5 else 'sb'
            a1 = [rand_value(rng, rng.randint(0, 4), tuples=True, nonstr_keys=True)
                  for _ in range(rng.randint(0, 2))]
            k1 = {k: rand_value(rng, rng.randint(0, 3), tuples=True, nonstr_keys=True)
                  for k in rng.sample(['k', 'j', 'z'], rng.randint(0, 2))}
            r = rng.random()
            tag = 'same'
            if r < 0.08:
                # the same values as instances of plain subclasses (str/int/float/list/dict/tuple subclasses,
                # OrderedDict): JSON-equal, so the same entry
                from .c18 import subclassed
                import collections
                a2 = [subclassed(x, rng) for x in a1]
                k2 = collections.OrderedDict((k, subclassed(v, rng)) for k, v in reversed(list(k1.items())))
                tag = 'roundtrip'
            elif r < 0.3:
                a2, k2 = json.loads(json.dumps(a1)), json.loads(json.dumps(k1))   # round trip: equal
                if rng.random() < 0.5 and k2:
                    k2 = dict(reversed(list(k2.items())))
                tag = 'roundtrip'
            elif r < 0.8:
                tag = 'near'
                a2, k2 = list(a1), dict(k1)
                if a1 and rng.random() < 0.7:
                    j = rng.randrange(len(a1))
                    try:
                        nm = near_misses(rng, roundtrip(a1[j]))
                    except TypeError:
                        nm = []
                    if nm:
                        a2[j] = rng.choice(nm)
                elif k1:
                    kk = rng.choice(list(k1))
                    nm = near_misses(rng, roundtrip(k1[kk]))
                    if nm:
                        k2[kk] = rng.choice(nm)
                else:
                    a2 = a1 + [None]
            else:
                a2, k2 = a1, k1
            if rng.random() < 0.25:
                # structural near misses: move content across the args/kwargs boundary or a nesting level
                tag = 'near'
                how = rng.randrange(5)
                a2, k2 = list(a1), dict(k1)
                if how == 0 and k2:
                    kk = sorted(k2)[0]
                    a2 = a2 + [kk, k2.pop(kk)]
                elif how == 1 and len(a2) >= 2 and isinstance(a2[-2], str):
                    v = a2.pop()
                    kk = a2.pop()
                    k2[kk] = v
                elif how == 2:
                    a2 = [a2]
                elif how == 3 and a2 and isinstance(a2[0], (list, tuple)):
                    a2 = list(a2[0]) + a2[1:]
                else:
                    kk = rng.choice(['k', 'j', 'scale'])
                    v = rand_value(rng, 1)
                    a1, k1 = list(a1) + [kk, v], dict(k1)
                    k1.pop(kk, None)
                    a2, k2 = list(a1[:-2]), dict(k1, **{kk: v})
            c = Case(kind, a1, k1, a2, k2, tag=tag)
            if kind == 'bf':
                c.sp1 = rng.choice(SPELLINGS)
                c.sp2 = rng.choice(SPELLINGS)
                if rng.random() < 0.25:
                    c.same_path = False
                    c.diff = rng.choice(['sibling', 'case', 'nfd', 'deeper'])
                    if c.diff == 'nfd':
                        c.sp1 = 'nfc'
                        c.sp2 = 'plain'
                    c.tag += '|diffpath:' + c.diff
                else:
                    c.tag += '|spell'
            batch.append(c)
        run_batch(sh, batch, rng)
