"""C01 cache transparency: incremental build == from-scratch twin == model."""
from .common import run_histories
from ..gen import GenCfg

CONFIG = {
    'level': 'exploration',
    'budget': {'quick': 30, 'thorough': 600},
    'rule': ('random programs (nested build_file/subbuild trees, caught/uncaught failures in all '
             'failure modes, data-dependent ifq) x random histories of external mutations, builds, '
             'failing builds, version changes and cleans; every build is compared with the '
             'reference model (result type-exactly, exception class, full tree bytes) and a '
             'sample of builds with a literal from-scratch twin run of the library on a cleaned '
             'copy; evaluations = builds+cleans judged; distinct_nontrivial = distinct '
             '(program shape, step-kind sequence) histories with >=1 cache hit and >=1 justified miss'),
    'gates': ['ladder_cases', 'swap_cases', 'overlay_cases', 'builds_committed', 'builds_rolled_back', 'stat:hits_top', 'stat:must_run', 'twin_runs'],
}

KINDS = {'result', 'tree', 'twin_result', 'twin_tree', 'clean_tree'}


def select(d):
    return d['kind'] in KINDS


def make_cfg(rng):
    return GenCfg(maxdepth=4 if rng.random() < 0.2 else 3)


def run_shard(sh):
    from .swapcases import run_swap_cases
    run_swap_cases(sh, select, 'C01', nested_cache=sh.idx % 2 == 1)
    from .laddercases import run_ladder_cases
    run_ladder_cases(sh, select)
    from .overlaycases import run_overlay_cases
    run_overlay_cases(sh, select, stride=2 if sh.tier == 'quick' else 1)
    run_histories(sh, select=select, make_cfg=make_cfg,
                  steps_range=(4, 8) if sh.tier == 'quick' else (6, 14),
                  twin_prob=0.35)
