"""Child of the strace cross-check: runs random histories and writes every mutating
audit-hook event (library and user side) it saw under the sandbox to a JSON file."""
import json
import os
import random
import sys

from . import env, monitor
from .env import Scratch
from .world import World
from .gen import GenCfg, gen_program
from .hist import random_mutation


def main():
    out, seed, nhist = sys.argv[1], int(sys.argv[2]), int(sys.argv[3])
    rng = random.Random(seed)
    windows = []
    roots = []
    builds = 0

    def mark(what):
        try:
            os.mkdir('/proc/fbx_%s' % what)     # fails; shows up in the strace log as a marker
        except OSError:
            pass

    def record(mon):
        windows.append([{'ev': e['ev'], 'paths': e['paths'], 'user': e['user'], 'phase': e['phase']}
                        for e in mon.events
                        if e['ev'] in ('os.mkdir', 'os.rename', 'os.remove', 'os.rmdir', 'open_w')])
    for _ in range(nhist):
        cfg = GenCfg(p_inner=0.0)      # (inner builds remove their own directory: not part of this comparison)
        program = gen_program(rng, cfg)
        with Scratch('x') as sc:
            w = World(sc, 'k/kk/cache.gz' if rng.random() < 0.3 else 'cache.gz')
            roots.append(sc.base)
            counter = [0]
            for _step in range(rng.randint(2, 5)):
                for _ in range(rng.randint(0, 2)):
                    random_mutation(rng, w, cfg, counter=counter)
                ri = rng.randrange(len(program['roots']))
                body = program['roots'][ri]
                if rng.random() < 0.2:
                    body = body + [['raise', 'root']]
                mark('begin')
                sr = w.build(program, body, {}, label=ri if body is program['roots'][ri] else 'failing', compare=False)
                mark('end')
                builds += 1
                record(sr.mon)
                if rng.random() < 0.2:
                    mark('begin')
                    c = w.clean(compare=False)
                    mark('end')
                    record(c.mon)
    json.dump({'windows': windows, 'roots': roots, 'builds': builds}, open(out, 'w'))


if __name__ == '__main__':
    main()
