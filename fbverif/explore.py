"""Exploratory driver used while developing: random histories, bucketed divergences."""
import collections
import json
import random
import sys
import traceback

from . import env
from .env import Scratch
from .world import World
from .gen import GenCfg, gen_program, gen_versions
from .hist import random_mutation


def one_history(seed, buckets, verbose=False, cfg=None, nested_cache=False):
    rng = random.Random(seed)
    cfg = cfg or GenCfg()
    with Scratch('x') as sc:
        w = World(sc, 'k/kk/cache.gz' if nested_cache else 'cache.gz')
        program = gen_program(rng, cfg)
        counter = [0]
        for step in range(rng.randint(3, 7)):
            for _ in range(rng.randint(0, 2)):
                random_mutation(rng, w, cfg, counter=counter)
            ri = rng.randrange(len(program['roots']))
            sr = w.build(program, program['roots'][ri], {}, label=ri)
            if sr.divs:
                for d in sr.divs:
                    sig = (d['kind'],) + tuple(
                        str(d.get(k))[:100] for k in ('q', 'real', 'model', 'why', 'diffs', 'pathclass', 'classes', 'ev', 'what'))
                    buckets[sig].append((seed, step))
                if verbose:
                    print(json.dumps(program))
                    print(json.dumps(w.steps))
                    for d in sr.divs:
                        print(dict(d))
                    print('RLOG', [(t, env.rel(w.sb, str(k[1]))[:40], f) for t, k, f in sr.rctx.log])
                    print('MLOG', [(t, env.rel(w.sb, str(k[1]))[:40], f) for t, k, f in sr.mctx.log])
                return False
            if rng.random() < 0.12:
                sr = w.clean()
                if sr.divs:
                    for d in sr.divs:
                        buckets[(d['kind'], str(d.get('diffs'))[:100])].append((seed, step))
                    if verbose:
                        print(json.dumps(w.steps))
                        print([dict(d) for d in sr.divs])
                    return False
    return True


if __name__ == '__main__':
    n = int(sys.argv[1])
    start = int(sys.argv[2]) if len(sys.argv) > 2 else 0
    nested = len(sys.argv) > 3 and sys.argv[3] == 'nested'
    if n == 1:
        one_history(start, collections.defaultdict(list), True, nested_cache=nested)
        sys.exit()
    buckets = collections.defaultdict(list)
    ok = 0
    for s in range(start, start + n):
        try:
            ok += one_history(s, buckets, nested_cache=nested)
        except Exception:
            buckets[('harness', traceback.format_exc().strip().splitlines()[-1][:150])].append((s, -1))
    print('ok', ok, 'of', n)
    for k, v in sorted(buckets.items(), key=lambda kv: -len(kv[1])):
        print(len(v), k, v[:4])
