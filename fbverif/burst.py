"""C04 probe bursts: every query kind on a set of universe paths at one program
point, with model-free consistency laws evaluated on the real answers."""
import os

from .prog import EXT, do_query, H

KINDS = ('exists', 'is_file', 'is_dir', 'list_dir', 'walk', 'get_size', 'read_binary')


def parent(r):
    return r.rsplit('/', 1)[0] if '/' in r else ''


def burst(ctx, fr, s, acc):
    paths = list(s[2])
    ans = {}
    for r in paths:
        for kind in KINDS:
            a = do_query(ctx, fr.b, kind, r, 'M')
            with ctx.lock:
                ctx.qlog.append((fr.where, kind, r, 'M', a))
            ans[(kind, r)] = a
    # names that listings mention but the burst did not ask about
    extra = []
    for r in paths:
        a = ans[('list_dir', r)]
        if a[0] == 'ok':
            for n in a[1]:
                c = (r + '/' + n) if r else n
                if c not in paths and c not in extra:
                    extra.append(c)
    for c in sorted(extra)[:12]:
        for kind in ('exists', 'is_file', 'is_dir'):
            a = do_query(ctx, fr.b, kind, c, 'M')
            with ctx.lock:
                ctx.qlog.append((fr.where, kind, c, 'M', a))
            ans[(kind, c)] = a
    if ctx.real:
        check_laws(ctx, paths, ans, fr.where)
        with ctx.lock:
            ctx.bursts = getattr(ctx, 'bursts', 0) + 1
            ctx.law_evals = getattr(ctx, 'law_evals', 0) + len(ans)
    return H(acc, 'burst', sorted((k, r, a) for (k, r), a in ans.items()))


def ok(a):
    return a[0] == 'ok'


def check_laws(ctx, paths, ans, where):
    def bad(law, r, **kw):
        ctx.issue('law:' + law, path=r, where=where, **kw)

    def val(kind, r):
        a = ans.get((kind, r))
        return None if a is None or a[0] != 'ok' else a[1]
    for r in paths:
        ex, isf, isd = val('exists', r), val('is_file', r), val('is_dir', r)
        if ex is None or isf is None or isd is None:
            bad('bool-queries-raised', r)
            continue
        if ex != (isf or isd):
            bad('exists=is_file|is_dir', r, got=[ex, isf, isd])
        if isf and isd:
            bad('file-and-dir', r)
        # parent of anything that exists is a directory
        if ex and r:
            pd = val('is_dir', parent(r))
            if pd is False:
                bad('parent-not-dir', r)
        # list_dir
        la = ans[('list_dir', r)]
        if ok(la) != bool(isd):
            bad('list_dir-ok-iff-dir', r, got=la[:1])
        elif not ok(la):
            want = 'NotADirectoryError' if isf else 'FileNotFoundError'
            if la[1] != want:
                bad('list_dir-error-class', r, got=la[1], want=want)
        else:
            names = set(la[1])
            if len(names) != len(la[1]):
                bad('list_dir-duplicates', r)
            for (k, c), a in list(ans.items()):
                if k == 'exists' and c and parent(c) == r and a[0] == 'ok':
                    if (os.path.basename(c) in names) != a[1]:
                        bad('list_dir=children-that-exist', c, listed=os.path.basename(c) in names,
                            exists=a[1])
        # read
        ra = ans[('read_binary', r)]
        if ok(ra) != bool(isf):
            bad('read-ok-iff-file', r, got=ra[:1])
        elif not ok(ra):
            want = 'IsADirectoryError' if isd else 'FileNotFoundError'
            if ra[1] != want and ra[1] != 'OSError(any)':
                bad('read-error-class', r, got=ra[1], want=want)
        # get_size
        ga = ans[('get_size', r)]
        if ok(ga) != bool(ex):
            bad('get_size-ok-iff-exists', r, got=ga[:1])
        elif ok(ga) and isf and ok(ra) and ga[1] != len(ra[1]):
            bad('get_size=len(content)', r, got=ga[1], want=len(ra[1]))
        elif not ok(ga) and ga[1] != 'FileNotFoundError':
            bad('get_size-error-class', r, got=ga[1])
        # walk
        wa = ans[('walk', r)]
        if not ok(wa):
            bad('walk-raised', r)
        elif bool(wa[1]) != bool(isd):
            bad('walk-empty-iff-not-dir', r)
        elif isd:
            seen = set()
            for d, sd, sf in wa[1]:
                if d in seen:
                    bad('walk-duplicate-dir', d)
                seen.add(d)
                l2 = ans.get(('list_dir', d))
                if l2 is not None and ok(l2) and sorted(sd + sf) != sorted(l2[1]):
                    bad('walk=list_dir', d, walk=sorted(sd + sf), list_dir=sorted(l2[1]))
                for n in sd:
                    c = (d + '/' + n) if d else n
                    if val('is_dir', c) is False:
                        bad('walk-subdir-not-dir', c)
                for n in sf:
                    c = (d + '/' + n) if d else n
                    if val('is_file', c) is False:
                        bad('walk-subfile-not-file', c)
            if r not in seen:
                bad('walk-misses-top', r)
            # every subdir listed is walked
            for d, sd, sf in wa[1]:
                for n in sd:
                    c = (d + '/' + n) if d else n
                    if c not in seen:
                        bad('walk-subdir-not-walked', c)


EXT['burst'] = burst
