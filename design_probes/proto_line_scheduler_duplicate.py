import os, sys, shutil, tempfile, threading, _thread, time, types
sys.path.insert(0,'/repo')
sys.dont_write_bytecode=True
import file_builder
from file_builder import FileBuilder
import file_builder.file_builder as M1, file_builder.cache as M2, file_builder.build_dirs as M3, file_builder.simple_operation_executor as M4, file_builder.file_backups as M5, file_builder.created_files as M6, file_builder.json_util as M7
MODS=[M1,M2,M3,M4,M5,M6,M7]
LIBDIR=os.path.dirname(M1.__file__)

class Deadlock(Exception): pass
class Sched:
    def __init__(self, preempt_at=None):
        self.mu=_thread.allocate_lock()
        self.threads={}   # tid -> dict(state, ev)
        self.order=[]
        self.current=None
        self.step=0
        self.preempt_at=preempt_at or {}   # step -> target index
        self.trace=[]
        self.deadlock=False
    def me(self): return _thread.get_ident()
    def managed(self): return self.me() in self.threads and self.threads[self.me()]['state']!='done'
    def register_and_wait(self, name):
        ev=threading.Event()
        with self.mu:
            self.threads[self.me()]={'state':'run','ev':ev,'name':name}
            self.order.append(self.me())
        ev.wait(); ev.clear()
    def _runnable(self):
        return [t for t in self.order if self.threads[t]['state']=='run']
    def _switch_to(self, t):
        me=self.me()
        self.current=t
        if t!=me:
            self.threads[t]['ev'].set()
            if self.threads[me]['state']!='done':
                ev=self.threads[me]['ev']; ev.wait(); ev.clear()
    def yield_point(self, tag):
        me=self.me()
        self.step+=1
        tgt=self.preempt_at.get(self.step)
        if tgt is not None:
            r=[t for t in self._runnable() if t!=me]
            if r:
                t=r[tgt%len(r)]
                self.trace.append((self.step,self.threads[me]['name'],tag,self.threads[t]['name']))
                self._switch_to(t)
    def block(self, lock):
        me=self.me()
        self.threads[me]['state']='blocked'; self.threads[me]['on']=lock
        r=self._runnable()
        if not r:
            self.deadlock=True
            raise Deadlock()
        self._switch_to(r[0])
    def wake(self, lock):
        for t in self.order:
            th=self.threads[t]
            if th['state']=='blocked' and th.get('on') is lock: th['state']='run'
    def exit(self):
        me=self.me()
        self.threads[me]['state']='done'
        r=self._runnable()
        if r: self._switch_to(r[0])
        else: self.main_ev.set()
SCHED=None
class SLock:
    def __init__(self): self.real=_thread.allocate_lock()
    def acquire(self, blocking=True, timeout=-1):
        s=SCHED
        if s is None or not s.managed(): return self.real.acquire(blocking, timeout)
        while not self.real.acquire(False):
            s.block(self)
        return True
    def release(self):
        self.real.release()
        s=SCHED
        if s is not None and s.managed(): s.wake(self)
    def locked(self): return self.real.locked()
    def __enter__(self): self.acquire(); return self
    def __exit__(self,*a): self.release()
shim=types.SimpleNamespace(Lock=SLock)
for m in MODS:
    if hasattr(m,'threading'): m.threading=shim

mon=sys.monitoring; TOOL=3
mon.use_tool_id(TOOL,'sched')
def on_line(code, line):
    s=SCHED
    if s is not None and s.managed() and s.current==_thread.get_ident():
        s.yield_point((os.path.basename(code.co_filename),line))
mon.register_callback(TOOL, mon.events.LINE, on_line)
def codes(obj, seen):
    for v in list(vars(obj).values()):
        f=getattr(v,'__func__',v)
        c=getattr(f,'__code__',None)
        if c is not None and c.co_filename.startswith(LIBDIR) and c not in seen:
            seen.add(c); allc(c,seen)
        elif isinstance(v,type) and v.__module__.startswith('file_builder') and v not in seen:
            seen.add(v); codes(v,seen)
def allc(c,seen):
    for k in c.co_consts:
        if isinstance(k,types.CodeType) and k not in seen: seen.add(k); allc(k,seen)
seen=set()
for m in MODS: codes(m,seen)
ncode=0
for c in seen:
    if isinstance(c,types.CodeType): mon.set_local_events(TOOL,c,mon.events.LINE); ncode+=1
print('instrumented code objects',ncode)

def W(p,s):
    with open(p,'w') as f: f.write(s)
def run(preempt_at):
    global SCHED
    d=tempfile.mkdtemp(prefix='fbs_'); c=os.path.join(d,'cache.gz')
    s=Sched(preempt_at); s.main_ev=threading.Event(); calls=[]
    def bf(b,fn): calls.append(1); W(fn,'x'); return 'v'
    errs=[]; res=[]
    def root(b):
        global SCHED
        def work(i):
            s.register_and_wait('T%d'%i)
            try: res.append((i,b.build_file(os.path.join(d,'o','f'),'bf',bf)))
            except BaseException as e: errs.append(repr(e))
            finally: s.exit()
        ts=[threading.Thread(target=work,args=(i,)) for i in range(2)]
        SCHED=s
        for t in ts: t.start()
        while len(s.order)<2: time.sleep(0.0005)
        s.current=s.order[0]; s.threads[s.order[0]]['ev'].set()
        s.main_ev.wait(10)
        for t in ts: t.join(5)
        SCHED=None
        return 1
    FileBuilder.build(c,'n',root)
    ok = os.path.isfile(os.path.join(d,'o','f')) and len(calls)==1 and len(res)==1 and len(errs)==1 and 'same file twice' in errs[0]
    left=[] if ok else [('file',os.path.isfile(os.path.join(d,'o','f')),'calls',len(calls),'res',len(res))]
    shutil.rmtree(d)
    return s.step, left, [] if ok else errs, s.trace
t0=time.time()
n,left,errs,_=run({})
print('baseline steps',n,left,errs, time.time()-t0)
bad=[]
t0=time.time()
for k in range(1,n+1):
    st,left,errs,tr=run({k:0})
    if left or errs: bad.append((k,left,errs,tr))
print('single-preemption runs',n,'violating',len(bad),'time',round(time.time()-t0,2))
for b in bad[:5]: print(b)
