"""design probe: single injected OSError at the k-th library mkdir/rename/rmdir/open(cache,w); only runs where it propagates out of build() are judged (C02 oracle)"""
import os, sys, random, shutil, tempfile, collections, errno, threading
import importlib.util
spec = importlib.util.spec_from_file_location('cp', os.path.join(os.path.dirname(os.path.abspath(__file__)), 'proto_crash_points.py')); cp = importlib.util.module_from_spec(spec); spec.loader.exec_module(cp)
mp = cp.mp
from file_builder import FileBuilder
ST = {'on': False, 'n': 0, 'at': None, 'hit': None, 'sb': None}
def hook(e, a):
    if not ST['on']: return
    if e in ('os.mkdir', 'os.rename', 'os.rmdir') or (e == 'open' and isinstance(a[0], str) and a[0].endswith('cache.gz') and isinstance(a[2], int) and (a[2] & 3) != 0):
        p = str(a[0])
        if not p.startswith(ST['base']): return
        ST['n'] += 1
        if ST['n'] == ST['at']:
            ST['hit'] = (e, os.path.relpath(p, ST['base']))
            raise OSError(errno.EIO, 'injected', p)
sys.addaudithook(hook)

def run_history(seed, buckets, stats):
    rng = random.Random(seed)
    tempfile.tempdir = None
    base = tempfile.mkdtemp(prefix='fbf_', dir='/dev/shm'); sb = os.path.join(base, 'sb'); os.mkdir(sb)
    tmpd = os.path.join(base, 'tmp'); os.mkdir(tmpd); tempfile.tempdir = tmpd; ST['base'] = base
    m = mp.Model(); fid = [0]; bodies = []
    while len(bodies) < 2:
        b = mp.gen_body(rng, 0, None, fid)
        if mp.ok_program(b): bodies.append(b)
    try:
        for step in range(rng.randint(2, 4)):
            for _ in range(rng.randint(0, 2)): mp.ext_mutate(rng, sb, m)
            body = rng.choice(bodies)
            saved = os.path.join(base, 'saved'); shutil.copytree(sb, saved, copy_function=shutil.copy2); clk = mp.RCLK[0]
            def build():
                ri = mp.Interp(sb, True)
                return FileBuilder.build(os.path.join(sb, mp.CACHE), 'n', lambda b: ri.run(b, body, 'root', ''))
            ST.update(on=True, n=0, at=None)
            try: build()
            except Exception: pass
            ST['on'] = False; total = ST['n']
            for k in range(1, total + 1):
                shutil.rmtree(sb); shutil.copytree(saved, sb, copy_function=shutil.copy2); mp.RCLK[0] = clk
                for x in os.listdir(tmpd): shutil.rmtree(os.path.join(tmpd, x))
                pre = cp.snap(sb)
                ST.update(on=True, n=0, at=k, hit=None)
                try:
                    build(); out = 'returned'
                except OSError as e:
                    out = 'oserror' if 'injected' in str(e) or True else 'other'
                except Exception as e:
                    out = 'exc:' + type(e).__name__
                ST['on'] = False
                if ST['hit'] is None: continue
                stats[(ST['hit'][0], out)] += 1
                if out == 'returned': continue
                post = cp.snap(sb)
                allowed = set(m.record['created_dirs']) if m.record else set()
                diff = [(p, (pre.get(p) or '-')[0], (post.get(p) or '-')[0]) for p in set(pre) | set(post) if pre.get(p) != post.get(p) and not (p not in pre and post[p] == ('d',) and p in allowed)]
                if diff:
                    buckets[(ST['hit'][0], out, str(sorted(set((a, b) for _, a, b in diff))))].append((seed, step, k, ST['hit'][1], sorted(diff)[:2]))
            shutil.rmtree(sb); shutil.copytree(saved, sb, copy_function=shutil.copy2); shutil.rmtree(saved); mp.RCLK[0] = clk
            mb = mp.MBuild(m); mi = mp.Interp(sb, False, mb); mi.m = m; mi.prev = {}
            try: mi.run(None, body, 'root', ''); mb.commit()
            except (mp.UserBoom, mp.MErr): pass
            try: build()
            except Exception: pass
            if mp.strip(mp.snapshot(sb)) != mp.strip(m.disk): return
    finally:
        shutil.rmtree(base, ignore_errors=True)

if __name__ == '__main__':
    n = int(sys.argv[1]); start = int(sys.argv[2]); buckets = collections.defaultdict(list); stats = collections.Counter()
    for s in range(start, start + n): run_history(s, buckets, stats)
    print('stats', dict(stats))
    for k, v in sorted(buckets.items(), key=lambda kv: -len(kv[1])): print(len(v), k, v[:2])
