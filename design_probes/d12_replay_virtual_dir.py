import os, shutil, tempfile, sys, traceback
sys.path.insert(0,os.environ.get('FBR','/repo'))
from file_builder import FileBuilder
d=tempfile.mkdtemp(prefix='fbp_'); c=os.path.join(d,'cache.gz')
P=lambda p: os.path.join(d,p)
log=[]
class Boom(Exception): pass
def S3(b,a):
    log.append('S3')
    try: b.get_size(P('b'))
    except OSError: pass
    raise Boom()
def F2(b,fn):
    log.append('F2')
    b.subbuild('S3',S3,1)
def S1(b,a):
    log.append('S1')
    try: b.build_file(P('b/c/a'),'F2',F2)
    except Boom: pass
    return 1
def root(b):
    return b.subbuild('S1',S1,2)
for i in range(3):
    log.clear()
    print(FileBuilder.build(c,'n',root), log, sorted(os.listdir(d)))
