import os, shutil, tempfile, sys, gzip, json
sys.path.insert(0,'/repo')
import logging; logging.disable(logging.CRITICAL)
from file_builder import FileBuilder
base=tempfile.mkdtemp(prefix='fbp_'); d=os.path.join(base,'sb'); os.mkdir(d); t=os.path.join(base,'tmp'); os.mkdir(t); tempfile.tempdir=t
c=os.path.join(d,'cache.gz'); P=lambda p: os.path.join(d,p)
def bf(b,fn): open(fn,'w').write('out')
calls=[]
def root(b): calls.append(1); b.build_file(P('o/f'),'bf',bf); return 1
FileBuilder.build(c,'n',root)
good=open(c,'rb').read(); js=json.loads(gzip.decompress(good))
def snap():
    out={}
    for r,ds,fs in os.walk(d):
        for x in ds: out[os.path.join(r,x)]='d'
        for x in fs:
            p=os.path.join(r,x); st=os.stat(p); out[p]=(open(p,'rb').read(),st.st_mtime_ns,st.st_ino)
    return out
def gz(obj): return gzip.compress(json.dumps(obj).encode())
cases={'trunc5':good[:5],'trunc_half':good[:len(good)//2],'trunc_trailer':good[:-3],'empty':b'','flip':good[:20]+bytes([good[20]^0x10])+good[21:],
 'nonjson':gzip.compress(b'hello'),'list':gz([1]),'software':gz(dict(js,software='x')),'version':gz(dict(js,cacheFileVersion=2)),
 'nokeys':gz({'software':'file_builder'}),'badops':gz(dict(js,rootOperations=[{'type':'build_file'}])),'opsnotlist':gz(dict(js,rootOperations=5)),
 'nonutf8':gzip.compress(b'\xff\xfe{}'), 'plain':b'{}'}
for name,data in cases.items():
    open(c,'wb').write(data); os.utime(c,ns=(10**18,10**18))
    for api in ('build','clean'):
        pre=snap(); calls.clear()
        try:
            if api=='build': FileBuilder.build(c,'n',root)
            else: FileBuilder.clean(c,'n')
            r='ACCEPTED'
        except Exception as e: r=type(e).__name__
        post=snap()
        print(name,api,r,'same' if pre==post else 'CHANGED','calls',len(calls),'tmp',os.listdir(t))
        if pre!=post: break
for api,args in [('build',(c,5,root)),('build',(c,'n',5)),('build',(5.5,'n',root)),('clean',(c,5)),('bv',(c,'n',[],root)),('bv',(c,'n',{'a':object()},root)),('build',(c,'other',root)),('clean',(c,'other'))]:
    open(c,'wb').write(good); pre=snap()
    try:
        {'build':FileBuilder.build,'clean':FileBuilder.clean,'bv':FileBuilder.build_versioned}[api](*args); r='ACCEPTED'
    except Exception as e: r=type(e).__name__
    print(api,args[1:3],r,'same' if pre==snap() else 'CHANGED',os.listdir(t))
shutil.rmtree(base)
