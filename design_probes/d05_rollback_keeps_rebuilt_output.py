import os, shutil, tempfile, sys
sys.path.insert(0,'/repo')
import logging; logging.disable(logging.CRITICAL)
from file_builder import FileBuilder
d=tempfile.mkdtemp(prefix='fbp_'); c=os.path.join(d,'cache.gz')
P=lambda p: os.path.join(d,p)
def bf(b,fn): open(fn,'w').write('out')
def ok(b): b.build_file(P('o/f'),'bf',bf)
def bad(b): b.build_file(P('o/f'),'bf',bf); raise ValueError('boom')
FileBuilder.build(c,'n',ok)
os.remove(P('o/f'))          # external deletion of the output between builds
pre=sorted(os.path.relpath(os.path.join(r,x),d) for r,ds,fs in os.walk(d) for x in ds+fs)
try: FileBuilder.build(c,'n',bad)
except ValueError: pass
post=sorted(os.path.relpath(os.path.join(r,x),d) for r,ds,fs in os.walk(d) for x in ds+fs)
print('pre ',pre); print('post',post)
shutil.rmtree(d)
