"""Throw-away prototype (design phase): from-scratch reference model + random
sequential programs, differential against the real library.  Used only to learn
which divergences exist so that DESIGN.md can describe oracles/latitudes."""
import os, sys, json, random, shutil, tempfile, hashlib, traceback, collections
sys.path.insert(0, os.environ.get('FBR', '/repo'))
sys.dont_write_bytecode = True
import logging
logging.disable(logging.CRITICAL)
from file_builder import FileBuilder, FileComparison

CACHE = 'cache.gz'
RCLK = [10**18]

# ----------------------------------------------------------------- model
class MErr(Exception):
    def __init__(self, typ, setup=False):
        self.typ = typ; self.setup = setup

class UserBoom(Exception):
    pass

def parent(p):
    return p.rsplit('/', 1)[0] if '/' in p else ''

def ancestors(p):
    out = []
    while p:
        p = parent(p)
        out.append(p)
    return out  # nearest first, ends with ''

class Model:
    def __init__(self):
        self.disk = {'': ('d',)}
        self.record = None
        self.clock = 1000

    def tick(self):
        self.clock += 1
        return self.clock

    def children(self, fs, d):
        pre = d + '/' if d else ''
        return [k for k in fs if k and parent(k) == d]

    def virtual_start(self):
        v = dict(self.disk)
        if v.get(CACHE, ('x',))[0] == 'f':
            del v[CACHE]
        if self.record:
            for p in self.record['outputs']:
                if v.get(p, ('x',))[0] == 'f':
                    del v[p]
            for d in sorted(self.record['created_dirs'], key=lambda s: -len(s)):
                if v.get(d, ('x',))[0] == 'd' and not self.children(v, d):
                    del v[d]
        return v

class MBuild:
    """One from-scratch build on the model."""
    def __init__(self, model):
        self.m = model
        self.v = model.virtual_start()
        self.inprog = set()
        self.claimed_files = set()
        self.claimed_subs = set()
        self.done_files = set()
        self.created = set()
        # dirs for cache file
        for a in reversed(ancestors(CACHE)):
            if a not in self.v:
                self.v[a] = ('d',); self.created.add(a)

    def kind(self, p):
        if p in self.inprog or p == CACHE:
            return None
        e = self.v.get(p)
        if e is None:
            return None
        # a path below a file does not exist
        return e[0]

    # queries
    def is_file(self, p): return self.kind(p) == 'f'
    def is_dir(self, p): return self.kind(p) == 'd'
    def exists(self, p): return self.kind(p) is not None
    def list_dir(self, p):
        k = self.kind(p)
        if k != 'd':
            raise MErr('NotADirectoryError' if k == 'f' else 'FileNotFoundError')
        return sorted(c.rsplit('/', 1)[-1] for c in self.m.children(self.v, p) if self.kind(c))
    def walk(self, p, top_down=True):
        res = []
        if self.kind(p) != 'd':
            return res
        def rec(d):
            names = self.list_dir(d)
            subd = [n for n in names if self.kind((d + '/' + n) if d else n) == 'd']
            subf = [n for n in names if self.kind((d + '/' + n) if d else n) == 'f']
            if top_down: res.append((d, subd, subf))
            for n in subd: rec((d + '/' + n) if d else n)
            if not top_down: res.append((d, subd, subf))
        rec(p)
        return res
    def get_size(self, p):
        k = self.kind(p)
        if k is None: raise MErr('FileNotFoundError')
        if k == 'd': return 'DIRSIZE'
        return len(self.v[p][1])
    def read(self, p):
        k = self.kind(p)
        if k == 'd': raise MErr('IsADirectoryError')
        if k is None: raise MErr('FileNotFoundError')
        return self.v[p][1]

    # complex
    def begin_file(self, p):
        if p in self.claimed_files:
            raise MErr('RuntimeError', True)
        if p == CACHE:
            raise MErr('RuntimeError', True)
        if self.kind(p) == 'd':
            raise MErr('IsADirectoryError', True)
        need = []
        for a in ancestors(p):
            if a == CACHE:
                raise MErr('NotADirectoryError', True)
            k = self.kind(a)
            if k == 'd': break
            if k == 'f': raise MErr('NotADirectoryError', True)
            if a in self.inprog: raise MErr('NotADirectoryError', True)
            need.append(a)
        for a in reversed(need):
            self.v[a] = ('d',); self.created.add(a)
        if p in self.v: del self.v[p]
        self.claimed_files.add(p); self.inprog.add(p)

    def fail_file(self, p):
        self.inprog.discard(p)
        self.v.pop(p, None)
        for a in ancestors(p):
            if a in self.created and not self.m.children(self.v, a) and \
                    not any(q.startswith(a + '/') for q in self.inprog):
                del self.v[a]; self.created.discard(a)
            else:
                break

    def finish_file(self, p, content):
        self.inprog.discard(p)
        if content is None:
            self.fail_file(p)
            raise MErr('RuntimeError')
        self.v[p] = ('f', content, self.m.tick())
        self.done_files.add(p)

    def commit(self):
        self.v[CACHE] = ('f', b'<cache>', 0)
        self.m.disk = self.v
        self.m.record = {'outputs': set(self.done_files),
                         'created_dirs': {d for d in self.created if d in self.v}}

def model_clean(m):
    if m.disk.get(CACHE, ('x',))[0] != 'f' or m.record is None:
        return
    for p in m.record['outputs']:
        if m.disk.get(p, ('x',))[0] == 'f': del m.disk[p]
    del m.disk[CACHE]
    for d in sorted(m.record['created_dirs'], key=lambda s: -len(s)):
        if m.disk.get(d, ('x',))[0] == 'd' and not m.children(m.disk, d):
            del m.disk[d]
    m.record = None

# ------------------------------------------------------------ program + interp
NAMES = ['a', 'b', 'c']
def rand_path(rng, maxd=3):
    return '/'.join(rng.choice(NAMES) for _ in range(rng.randint(1, maxd)))

def gen_body(rng, depth, paths_used, fid):
    body = []
    for _ in range(rng.randint(1, 4)):
        r = rng.random()
        if r < 0.45:
            body.append(['q', rng.choice(['is_file', 'is_dir', 'exists', 'list_dir', 'walk', 'get_size', 'read']), rng.choice([rand_path(rng), '', rand_path(rng, 2)])])
        elif r < 0.75 and depth < 3:
            p = rand_path(rng)
            mode = rng.choice(['ok', 'ok', 'ok', 'raise_before', 'raise_after', 'nocreate'])
            fid[0] += 1
            body.append(['bf', p, 'F%d' % fid[0], mode, rng.random() < 0.7, gen_body(rng, depth + 1, paths_used, fid)])
        elif depth < 3:
            fid[0] += 1
            body.append(['sb', 'S%d' % fid[0], rng.randint(0, 2), rng.choice(['ok', 'ok', 'raise']), rng.random() < 0.7, gen_body(rng, depth + 1, paths_used, fid)])
    return body

def targets(body, out):
    for s in body:
        if s[0] == 'bf':
            out.append(s[1]); targets(s[5], out)
        elif s[0] == 'sb':
            targets(s[5], out)
    return out

def ok_program(body):
    t = targets(body, [])
    for x in t:
        for y in t:
            if x != y and y.startswith(x + '/'):
                return False
    return True

def H(acc, *xs):
    return hashlib.sha1((acc + '|' + json.dumps(xs, sort_keys=True, default=str)).encode()).hexdigest()[:10]

class Interp:
    """Runs a body against either the real builder or the model build."""
    def __init__(self, sb, real, mb=None, log=None):
        self.sb = sb; self.real = real; self.mb = mb; self.log = log if log is not None else []
        self.qlog = []
        self.stack = [[]]     # trace: list of children of current complex op
        self.nodes = []       # all complex nodes executed in this build (model)
        self.prev = {}        # key -> node of previous committed build
        self.expected = []    # expected invoked names
        self.reusable_depth = 0

    def ap(self, p): return os.path.join(self.sb, p) if p else self.sb

    def query(self, b, kind, p):
        if self.real:
            try:
                if kind == 'read':
                    with b.read_binary(self.ap(p)) as f: v = f.read().decode()
                elif kind == 'walk':
                    v = [[os.path.relpath(d, self.sb).replace('.', '') if d != self.sb else '', list(sd), list(sf)] for d, sd, sf in b.walk(self.ap(p))]
                    v = [[d if d != '.' else '', sd, sf] for d, sd, sf in v]
                elif kind == 'get_size':
                    v = b.get_size(self.ap(p))
                    if os.path.isdir(self.ap(p)): v = 'DIRSIZE'
                else:
                    v = getattr(b, kind)(self.ap(p))
                return ['ok', v]
            except OSError as e:
                return ['err', type(e).__name__]
        else:
            try:
                if kind == 'read': v = self.mb.read(p).decode()
                elif kind == 'walk': v = [[d, sd, sf] for d, sd, sf in self.mb.walk(p)]
                else: v = getattr(self.mb, kind)(p)
                return ['ok', v]
            except MErr as e:
                return ['err', e.typ]

    def run(self, b, body, acc, ctx):
        for s in body:
            if s[0] == 'q':
                a = self.query(b, s[1], s[2])
                self.qlog.append((ctx, s[1], s[2], a))
                if not self.real:
                    ta = a
                    if s[1] == 'read' and a[0] == 'ok':
                        e = self.mb.v[s[2]]; ta = ['ok', [len(e[1]), e[2]]]
                    self.stack[-1].append(['q', s[1], s[2], ta])
                acc = H(acc, s[1], s[2], a)
            elif s[0] == 'bf':
                acc = H(acc, 'bf', self.call_bf(b, s, ctx))
            elif s[0] == 'sb':
                acc = H(acc, 'sb', self.call_sb(b, s, ctx))
        return acc

    def call_bf(self, b, s, ctx):
        _, p, fname, mode, catch, body = s
        me = self
        if self.real:
            def fn(b2, filename):
                me.log.append(fname)
                assert filename == me.ap(p)
                if mode == 'raise_before': raise UserBoom(fname)
                acc = me.run(b2, body, 'f:' + fname, ctx + '/' + fname)
                if mode != 'nocreate':
                    with open(filename, 'w') as f: f.write(acc)
                    RCLK[0] += 1000; os.utime(filename, ns=(RCLK[0], RCLK[0]))
                if mode == 'raise_after': raise UserBoom(fname)
                return [acc]
            try:
                return ['ok', b.build_file(self.ap(p), fname, fn)]
            except Exception as e:
                if not catch: raise
                return ['exc', type(e).__name__]
        else:
            node = {'t': 'bf', 'key': ('bf', p), 'id': [fname], 'name': fname, 'raised': False, 'setup': False, 'sub': [], 'ret': None, 'out': None}
            self.stack[-1].append(node)
            try:
                try:
                    self.mb.begin_file(p)
                except MErr:
                    node['raised'] = node['setup'] = True
                    raise
                self.log.append(fname)
                self.stack.append(node['sub'])
                try:
                    try:
                        if mode == 'raise_before': raise UserBoom(fname)
                        acc = self.run(None, body, 'f:' + fname, ctx + '/' + fname)
                        content = acc.encode() if mode != 'nocreate' else None
                        if mode == 'raise_after':
                            raise UserBoom(fname)
                    except (UserBoom, MErr):
                        node['raised'] = True
                        self.mb.fail_file(p)
                        raise
                    try:
                        self.mb.finish_file(p, content)
                    except MErr:
                        node['raised'] = True
                        raise
                    node['ret'] = [acc]
                    node['out'] = [len(content), self.mb.v[p][2]]
                    return ['ok', [acc]]
                finally:
                    self.stack.pop()
                    self.finish_node(node)
            except UserBoom as e:
                if not catch: raise
                return ['exc', 'UserBoom']
            except MErr as e:
                if not catch: raise
                return ['exc', e.typ]

    def call_sb(self, b, s, ctx):
        _, fname, arg, mode, catch, body = s
        me = self
        if self.real:
            def fn(b2, a):
                me.log.append(fname)
                acc = me.run(b2, body, 's:%s:%d' % (fname, a), ctx + '/' + fname)
                if mode == 'raise': raise UserBoom(fname)
                return {'v': acc}
            try:
                return ['ok', b.subbuild(fname, fn, arg)]
            except Exception as e:
                if not catch: raise
                return ['exc', type(e).__name__]
        else:
            node = {'t': 'sb', 'key': ('sb', fname, arg), 'id': [fname, arg], 'name': fname, 'raised': False, 'setup': False, 'sub': [], 'ret': None, 'out': None}
            self.stack[-1].append(node)
            try:
                key = (fname, arg)
                if key in self.mb.claimed_subs:
                    node['raised'] = node['setup'] = True
                    raise MErr('RuntimeError', True)
                self.mb.claimed_subs.add(key)
                self.log.append(fname)
                self.stack.append(node['sub'])
                try:
                    try:
                        acc = self.run(None, body, 's:%s:%d' % (fname, arg), ctx + '/' + fname)
                        if mode == 'raise': raise UserBoom(fname)
                    except (UserBoom, MErr):
                        node['raised'] = True
                        raise
                    node['ret'] = {'v': acc}
                    return ['ok', {'v': acc}]
                finally:
                    self.stack.pop()
                    self.finish_node(node)
            except UserBoom:
                if not catch: raise
                return ['exc', 'UserBoom']
            except MErr as e:
                if not catch: raise
                return ['exc', e.typ]

    # ---- justification analysis (model side only)
    def has_setup(self, n):
        return any(isinstance(c, dict) and (c['setup'] or self.has_setup(c)) for c in n['sub'])

    def same(self, a, b):
        if isinstance(a, dict) != isinstance(b, dict): return False
        if not isinstance(a, dict): return a == b
        if (a['t'], a['key'], a['id'], a['raised'], a['setup'], a['ret'], a['out']) != (b['t'], b['key'], b['id'], b['raised'], b['setup'], b['ret'], b['out']):
            return False
        if len(a['sub']) != len(b['sub']): return False
        return all(self.same(x, y) for x, y in zip(a['sub'], b['sub']))

    def outputs_of(self, n, acc):
        if n['t'] == 'bf' and not n['raised']: acc.append((n['key'][1], n['out']))
        for c in n['sub']:
            if isinstance(c, dict): self.outputs_of(c, acc)
        return acc

    def finish_node(self, node):
        """decide whether the implementation may/must reuse the previous record"""
        self.nodes.append(node)
        node['reusable'] = False
        r = self.prev.get(node['key'])
        if r is None or r['raised'] or node['raised'] or r['id'] != node['id'] or self.has_setup(r) or self.has_setup(node):
            return
        # outputs intact on the *pre-build disk*?
        for path, out in self.outputs_of(r, []):
            e = self.m.disk.get(path)
            if e is None or e[0] != 'f' or [len(e[1]), e[2]] != out:
                return
        # compare traces with the old stamps substituted for outputs of this subtree
        saved = {}
        for path, out in self.outputs_of(node, []):
            saved[path] = self.mb.v[path]
        # tentatively restore old stamps
        for path, out in self.outputs_of(r, []):
            if path in self.mb.v and self.mb.v[path][0] == 'f':
                self.mb.v[path] = ('f', self.mb.v[path][1], out[1])
        self.restamp(node)
        if self.same(node, r):
            node['reusable'] = True
        else:
            for path, e in saved.items(): self.mb.v[path] = e
            self.restamp(node)

    def restamp(self, n):
        if n['t'] == 'bf' and not n['raised']:
            e = self.mb.v.get(n['key'][1])
            if e is not None and e[0] == 'f': n['out'] = [len(e[1]), e[2]]
        for c in n['sub']:
            if isinstance(c, dict): self.restamp(c)

    def expected_invocations(self, roots=None):
        out = []
        def rec(children):
            for c in children:
                if isinstance(c, dict):
                    if c['setup']: continue
                    if c.get('reusable'): continue
                    out.append(c['name']); rec(c['sub'])
        rec(self.stack[0])
        return out

# ------------------------------------------------------------ harness
def snapshot(sb):
    out = {'': ('d',)}
    for r, ds, fs in os.walk(sb):
        for d in ds:
            out[os.path.relpath(os.path.join(r, d), sb)] = ('d',)
        for f in fs:
            p = os.path.join(r, f)
            with open(p, 'rb') as fh: data = fh.read()
            out[os.path.relpath(p, sb)] = ('f', data)
    return out

def strip(disk):
    return {k: (v[0],) if v[0] == 'd' else ('f', v[1] if k != CACHE else b'<cache>') for k, v in disk.items()}

def ext_mutate(rng, sb, m):
    """random external mutation applied to both real tree and model disk"""
    p = rand_path(rng)
    op = rng.choice(['write', 'write', 'mkdir', 'delete', 'delete'])
    ap = os.path.join(sb, p)
    if op == 'write':
        for a in reversed(ancestors(p)):
            if m.disk.get(a, ('x',))[0] == 'f': return ('skip',)
        if m.disk.get(p, ('x',))[0] == 'd': return ('skip',)
        if p == CACHE: return ('skip',)
        os.makedirs(os.path.dirname(ap), exist_ok=True)
        data = ('ext%d' % rng.randint(0, 99)).encode()
        with open(ap, 'wb') as f: f.write(data)
        RCLK[0] += 1000; os.utime(ap, ns=(RCLK[0], RCLK[0]))
        for a in ancestors(p): m.disk.setdefault(a, ('d',))
        m.disk[p] = ('f', data, m.tick())
    elif op == 'mkdir':
        for a in [p] + ancestors(p):
            if m.disk.get(a, ('x',))[0] == 'f': return ('skip',)
        os.makedirs(ap, exist_ok=True)
        for a in [p] + ancestors(p): m.disk.setdefault(a, ('d',))
    else:
        if p not in m.disk or p == CACHE: return ('skip',)
        if m.disk[p][0] == 'f': os.remove(ap)
        else: shutil.rmtree(ap)
        for k in [k for k in m.disk if k == p or k.startswith(p + '/')]: del m.disk[k]
    return (op, p)

PREV = {}
def one_history(seed, buckets, verbose=False):
    rng = random.Random(seed)
    tempfile.tempdir = None
    base = tempfile.mkdtemp(prefix='fbm_')
    sb = os.path.join(base, 'sb'); os.mkdir(sb)
    tmpd = os.path.join(base, 'tmp'); os.mkdir(tmpd); tempfile.tempdir = tmpd
    m = Model()
    hist = []
    try:
        fid = [0]
        # a fixed pool of root bodies
        bodies = []
        while len(bodies) < 2:
            b = gen_body(rng, 0, None, fid)
            if ok_program(b): bodies.append(b)
        for step in range(rng.randint(3, 6)):
            for _ in range(rng.randint(0, 2)):
                hist.append(ext_mutate(rng, sb, m))
            body = rng.choice(bodies)
            hist.append(('build', bodies.index(body)))
            # model
            mb = MBuild(m); mi = Interp(sb, False, mb); mi.m = m; mi.prev = PREV.get(id(m), {})
            try:
                mres = ['ok', mi.run(None, body, 'root', '')]
                exp = mi.expected_invocations()
                mb.commit()
                idx = {}
                def index(children):
                    for c in children:
                        if isinstance(c, dict):
                            if not c['setup']: idx[c['key']] = c
                            index(c['sub'])
                index(mi.stack[0])
                PREV[id(m)] = idx
            except UserBoom:
                mres = ['exc', 'UserBoom']
            except MErr as e:
                mres = ['exc', e.typ]
            # real
            pre = snapshot(sb)
            ri = Interp(sb, True)
            try:
                rres = ['ok', FileBuilder.build(os.path.join(sb, CACHE), 'n', lambda b: ri.run(b, body, 'root', ''))]
            except Exception as e:
                rres = ['exc', type(e).__name__]
            post = snapshot(sb)
            sig = None
            if mres[0] == 'ok' and rres == mres and sorted(ri.log) != sorted(exp):
                sig = ('invocations', 'extra=%s missing=%s' % (len(set(ri.log) - set(exp)), len(set(exp) - set(ri.log))))
                if verbose: print('RLOG', ri.log); print('EXP', exp)
            elif rres != mres:
                # find first diverging query
                first = None
                md = {}
                for y in mi.qlog: md.setdefault(y[:3], y)
                for x in ri.qlog:
                    y = md.get(x[:3])
                    if y is not None and x != y: first = (x, y); break
                if verbose: print('RES', rres, mres); print('RLOG', ri.log); print('MLOG', mi.log); print('QDIFF', [(x,y) for x,y in zip(ri.qlog, mi.qlog) if x!=y][:3]); print('FIRST', first)
                if first:
                    sig = ('query', first[0][1], 'real=%s model=%s' % (first[0][3], first[1][3]))
                elif rres[0] == 'exc' and mres[0] == 'ok':
                    sig = ('result', 'real raised ' + rres[1])
                else:
                    sig = ('result', 'real=%s model=%s' % (rres[0] + ':' + str(rres[1])[:14], mres[0] + ':' + str(mres[1])[:14]))
            elif strip(post) != strip(m.disk if mres[0] == 'ok' else m.disk):
                a, b_ = strip(post), strip(m.disk)
                md = {}
                for y in mi.qlog: md.setdefault(y[:3], y)
                qd = [(x, md[x[:3]]) for x in ri.qlog if x[:3] in md and md[x[:3]] != x]
                diff = sorted((k, a.get(k, '-')[0], b_.get(k, '-')[0]) for k in set(a) | set(b_) if a.get(k) != b_.get(k))
                sig = ('tree', 'after_' + mres[0], str([(r_, mm) for _, r_, mm in diff][:3]), ('q:%s real=%s model=%s' % (qd[0][0][1], qd[0][0][3], qd[0][1][3]))[:90] if qd else '')
                if verbose: print('TREEDIFF', [(k, a.get(k), b_.get(k)) for k,_,_ in diff]); print('RLOG', ri.log); print('MLOG', mi.log); print('QDIFF', [(x,y) for x in ri.qlog for y in mi.qlog if x[:3]==y[:3] and x!=y][:3])
            if sig:
                buckets[sig].append((seed, step))
                if verbose:
                    print('SEED', seed, 'step', step, sig); print(json.dumps(hist)); print(json.dumps(bodies))
                return False
            if rng.random() < 0.15:
                FileBuilder.clean(os.path.join(sb, CACHE), 'n'); model_clean(m); PREV.pop(id(m), None)
                hist.append(('clean',))
                if strip(snapshot(sb)) != strip(m.disk):
                    buckets[('tree', 'after_clean')].append((seed, step)); return False
        return True
    finally:
        shutil.rmtree(base, ignore_errors=True)

if __name__ == '__main__':
    n = int(sys.argv[1]); start = int(sys.argv[2]) if len(sys.argv) > 2 else 0
    if n == 1:
        b = collections.defaultdict(list); one_history(start, b, True); sys.exit()
    buckets = collections.defaultdict(list); ok = 0
    for s in range(start, start + n):
        try:
            ok += one_history(s, buckets)
        except Exception as e:
            buckets[('harness', traceback.format_exc().strip().splitlines()[-1][:100])].append((s, -1))
    print('ok', ok, 'of', n)
    for k, v in sorted(buckets.items(), key=lambda kv: -len(kv[1])):
        print(len(v), k, v[:4])
