import os, shutil, tempfile, sys, traceback, threading, errno
sys.path.insert(0,'/repo')
from file_builder import FileBuilder, FileComparison
def fresh():
    d = tempfile.mkdtemp(prefix='fbp_'); return d, os.path.join(d,'cache.gz')
def W(p,s):
    with open(p,'w') as f: f.write(s)
def tree(d):
    out=[]
    for r,ds,fs in os.walk(d):
        for x in sorted(ds): out.append(os.path.relpath(os.path.join(r,x),d)+'/')
        for x in sorted(fs): out.append(os.path.relpath(os.path.join(r,x),d))
    return sorted(out)
# P6 race
sys.setswitchinterval(1e-6)
leaks=0; errs=0
for trial in range(40):
    d,c = fresh()
    def bf(b,fn): W(fn,'x')
    def root(b):
        ex=[]
        def work(i):
            try: b.build_file(os.path.join(d,'new','sub','f%d'%i),'bf',bf)
            except Exception as e: ex.append(e)
        ts=[threading.Thread(target=work,args=(i,)) for i in range(12)]
        for t in ts[:8]: t.start()
        for t in ts[:8]: t.join()
        return [repr(e) for e in ex]
    r=FileBuilder.build(c,'n',root)
    if r: errs+=1; print(r)
    FileBuilder.clean(c,'n')
    t=tree(d)
    if t: leaks+=1
    shutil.rmtree(d)
print('race leaks',leaks,'errs',errs,'of 40')

# P7 mkdir fails partway
d,c = fresh()
real_mkdir=os.mkdir
cnt=[0]
def bad_mkdir(p,*a,**k):
    if p.startswith(d) and 'fbp_' in p:
        cnt[0]+=1
        if cnt[0]==2: raise OSError(errno.EIO,'injected',p)
    return real_mkdir(p,*a,**k)
def bf(b,fn): W(fn,'x')
def root(b):
    os.mkdir=bad_mkdir
    try:
        try: b.build_file(os.path.join(d,'x','y','z','f'),'bf',bf)
        except OSError as e: r=['caught',type(e).__name__]
    finally: os.mkdir=real_mkdir
    r.append([b.is_dir(os.path.join(d,'x')), b.exists(os.path.join(d,'x','y')), b.list_dir(d)])
    return r
print(FileBuilder.build(c,'n',root)); print(tree(d))
FileBuilder.clean(c,'n'); print('after clean',tree(d))
shutil.rmtree(d)
