"""design probe: crash-point enumeration for C02 using the prototype model/interp"""
import os, sys, random, shutil, tempfile, collections, json
import importlib.util
spec = importlib.util.spec_from_file_location('mp', os.path.join(os.path.dirname(os.path.abspath(__file__)), 'proto_model_differential.py')); mp = importlib.util.module_from_spec(spec); spec.loader.exec_module(mp)
from file_builder import FileBuilder

class Crash(Exception): pass

class CInterp(mp.Interp):
    def __init__(self, *a, crash_at=None, **k):
        super().__init__(*a, **k); self.n = 0; self.crash_at = crash_at; self.crashed = None
    def point(self):
        self.n += 1
        if self.crash_at == self.n:
            self.crashed = Crash(self.n); raise self.crashed
    def run(self, b, body, acc, ctx):
        self.point()
        for s in body:
            acc = super().run(b, [s], acc, ctx) if False else self._one(b, s, acc, ctx)
            self.point()
        return acc
    def _one(self, b, s, acc, ctx):
        try:
            return mp.Interp.run(self, b, [s], acc, ctx) if s[0] == 'q' else self._cx(b, s, acc, ctx)
        except Crash: raise
    def _cx(self, b, s, acc, ctx):
        # reimplement call wrappers so that Crash always propagates
        if s[0] == 'bf':
            _, p, fname, mode, catch, body = s
            me = self
            def fn(b2, filename):
                me.log.append(fname)
                if mode == 'raise_before': raise mp.UserBoom(fname)
                a = me.run(b2, body, 'f:' + fname, ctx + '/' + fname)
                if mode != 'nocreate':
                    with open(filename, 'w') as f: f.write(a)
                    mp.RCLK[0] += 1000; os.utime(filename, ns=(mp.RCLK[0], mp.RCLK[0]))
                me.point()
                if mode == 'raise_after': raise mp.UserBoom(fname)
                return [a]
            try: r = ['ok', b.build_file(self.ap(p), fname, fn)]
            except Crash: raise
            except Exception as e:
                if not catch: raise
                r = ['exc', type(e).__name__]
            return mp.H(acc, 'bf', r)
        else:
            _, fname, arg, mode, catch, body = s
            me = self
            def fn(b2, a_):
                me.log.append(fname)
                a = me.run(b2, body, 's:%s:%d' % (fname, a_), ctx + '/' + fname)
                if mode == 'raise': raise mp.UserBoom(fname)
                return {'v': a}
            try: r = ['ok', b.subbuild(fname, fn, arg)]
            except Crash: raise
            except Exception as e:
                if not catch: raise
                r = ['exc', type(e).__name__]
            return mp.H(acc, 'sb', r)

def snap(sb):
    out = {}
    for r, ds, fs in os.walk(sb):
        for d in ds: out[os.path.relpath(os.path.join(r, d), sb)] = ('d',)
        for f in fs:
            p = os.path.join(r, f); st = os.stat(p)
            with open(p, 'rb') as fh: out[os.path.relpath(p, sb)] = ('f', fh.read(), st.st_mtime_ns)
    return out

def run_history(seed, buckets):
    rng = random.Random(seed)
    tempfile.tempdir = None
    base = tempfile.mkdtemp(prefix='fbc_', dir='/dev/shm'); sb = os.path.join(base, 'sb'); os.mkdir(sb)
    tmpd = os.path.join(base, 'tmp'); os.mkdir(tmpd); tempfile.tempdir = tmpd
    m = mp.Model(); fid = [0]; bodies = []
    while len(bodies) < 2:
        b = mp.gen_body(rng, 0, None, fid)
        if mp.ok_program(b): bodies.append(b)
    runs = 0
    try:
        for step in range(rng.randint(2, 4)):
            for _ in range(rng.randint(0, 2)): mp.ext_mutate(rng, sb, m)
            body = rng.choice(bodies)
            # crash-point enumeration on copies of the pre-state
            saved = os.path.join(base, 'saved'); shutil.copytree(sb, saved, copy_function=shutil.copy2)
            clk = mp.RCLK[0]
            ci = CInterp(sb, True)
            try: FileBuilder.build(os.path.join(sb, mp.CACHE), 'n', lambda b: ci.run(b, body, 'root', ''))
            except Exception: pass
            npoints = ci.n
            for k in range(1, npoints + 1):
                shutil.rmtree(sb); shutil.copytree(saved, sb, copy_function=shutil.copy2); mp.RCLK[0] = clk
                pre = snap(sb)
                ci = CInterp(sb, True, crash_at=k)
                try:
                    FileBuilder.build(os.path.join(sb, mp.CACHE), 'n', lambda b: ci.run(b, body, 'root', ''))
                    continue   # point k not reached (uncaught user failure earlier)
                except Crash as e:
                    same_obj = e is ci.crashed
                except Exception as e:
                    continue
                runs += 1
                post = snap(sb)
                allowed = set(m.record['created_dirs']) if m.record else set()
                diff = []
                for p in set(pre) | set(post):
                    if pre.get(p) != post.get(p):
                        if p not in pre and post[p] == ('d',) and p in allowed: continue
                        diff.append((p, (pre.get(p) or '-')[0], (post.get(p) or '-')[0]))
                if not same_obj: buckets[('identity',)].append((seed, step, k))
                if diff:
                    kinds = sorted(set((a, b_) for _, a, b_ in diff))
                    buckets[('tree', str(kinds))].append((seed, step, k, sorted(diff)[:2]))
                if os.listdir(tmpd): buckets[('tmp-left',)].append((seed, step, k))
            # now the real step, keeping model in sync
            shutil.rmtree(sb); shutil.copytree(saved, sb, copy_function=shutil.copy2); shutil.rmtree(saved); mp.RCLK[0] = clk
            mb = mp.MBuild(m); mi = mp.Interp(sb, False, mb); mi.m = m; mi.prev = {}
            try: mi.run(None, body, 'root', ''); mb.commit()
            except (mp.UserBoom, mp.MErr): pass
            ri = mp.Interp(sb, True)
            try: FileBuilder.build(os.path.join(sb, mp.CACHE), 'n', lambda b: ri.run(b, body, 'root', ''))
            except Exception: pass
            if mp.strip(mp.snapshot(sb)) != mp.strip(m.disk): return runs   # diverged (known D*), stop history
        return runs
    finally:
        shutil.rmtree(base, ignore_errors=True)

if __name__ == '__main__':
    n = int(sys.argv[1]); start = int(sys.argv[2]); buckets = collections.defaultdict(list); total = 0
    for s in range(start, start + n): total += run_history(s, buckets)
    print('crash runs', total)
    for k, v in sorted(buckets.items(), key=lambda kv: -len(kv[1])): print(len(v), k, v[:3])
