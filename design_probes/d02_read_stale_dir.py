import os, shutil, tempfile, sys, traceback
sys.path.insert(0,'/repo')
from file_builder import FileBuilder, FileComparison
def fresh():
    d = tempfile.mkdtemp(prefix='fbp_'); return d, os.path.join(d,'cache.gz')
def W(p,s):
    with open(p,'w') as f: f.write(s)
def tree(d):
    out=[]
    for r,ds,fs in os.walk(d):
        for x in sorted(ds): out.append(os.path.relpath(os.path.join(r,x),d)+'/')
        for x in sorted(fs): out.append(os.path.relpath(os.path.join(r,x),d))
    return sorted(out)

# P5/P3: stale directory read as a file
d,c = fresh()
def bf(b,fn): W(fn,'x')
def root1(b):
    b.build_file(os.path.join(d,'out','sub','f.txt'),'bf',bf)
def root2(b):
    res={}
    for p in ['out','out/sub']:
        P=os.path.join(d,p)
        r=[]
        for q in ('exists','is_file','is_dir'):
            r.append(getattr(b,q)(P))
        for q in ('read_text','list_dir','get_size','declare_read'):
            try:
                v=getattr(b,q)(P)
                if hasattr(v,'close'): v.close(); v='FILEOBJ'
                r.append(v)
            except Exception as e: r.append(type(e).__name__)
        r.append(b.walk(P))
        res[p]=r
    return res
FileBuilder.build(c,'n',root1)
print(tree(d))
print(FileBuilder.build(c,'n',root2))
print(tree(d))
shutil.rmtree(d)
