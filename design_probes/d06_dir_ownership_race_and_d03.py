import os, shutil, tempfile, sys, traceback, threading, errno
sys.path.insert(0,'/repo')
from file_builder import FileBuilder, FileComparison
def fresh():
    d = tempfile.mkdtemp(prefix='fbp_'); return d, os.path.join(d,'cache.gz')
def W(p,s):
    with open(p,'w') as f: f.write(s)
def tree(d):
    out=[]
    for r,ds,fs in os.walk(d):
        for x in sorted(ds): out.append(os.path.relpath(os.path.join(r,x),d)+'/')
        for x in sorted(fs): out.append(os.path.relpath(os.path.join(r,x),d))
    return sorted(out)
d,c=fresh()
real_mkdir=os.mkdir
a_paused=threading.Event(); b_done=threading.Event()
def mk(p,*a,**k):
    r=real_mkdir(p,*a,**k)
    if threading.current_thread().name=='A' and p.endswith('/new'):
        a_paused.set(); b_done.wait()
    return r
def bf(b,fn): W(fn,'x')
def root(b):
    os.mkdir=mk
    ex=[]
    def wa():
        try: b.build_file(os.path.join(d,'new','sub','fA'),'bf',bf)
        except Exception as e: ex.append(e)
    def wb():
        a_paused.wait()
        try: b.build_file(os.path.join(d,'new','sub','fB'),'bf',bf)
        except Exception as e: ex.append(e)
        b_done.set()
    ta=threading.Thread(target=wa,name='A'); tb=threading.Thread(target=wb,name='B')
    ta.start(); tb.start(); ta.join(); tb.join()
    os.mkdir=real_mkdir
    return [repr(e) for e in ex]
print(FileBuilder.build(c,'n',root)); print(tree(d))
FileBuilder.clean(c,'n'); print('after clean', tree(d))
shutil.rmtree(d)

# path below regular file & misc
d,c=fresh(); W(os.path.join(d,'file'),'abc')
def root2(b):
    out={}
    P=os.path.join(d,'file','x')
    for q in ('exists','is_file','is_dir','read_text','declare_read','list_dir','get_size','walk'):
        try:
            v=getattr(b,q)(P)
            if hasattr(v,'close'): v.close(); v='F'
            out[q]=v
        except Exception as e: out[q]=type(e).__name__
    out['size_dir']=b.get_size(d)
    out['ld']=b.list_dir(d)
    out['ldfile']=None
    try: b.list_dir(os.path.join(d,'file'))
    except Exception as e: out['ldfile']=type(e).__name__
    try: b.read_text(os.path.join(d,'nope'))
    except Exception as e: out['rd_nope']=type(e).__name__
    try: b.read_text(d)
    except Exception as e: out['rd_dir']=type(e).__name__
    return out
print(FileBuilder.build(c,'n',root2))
shutil.rmtree(d)
