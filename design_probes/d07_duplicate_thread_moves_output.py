import os, shutil, tempfile, sys, threading
sys.path.insert(0,'/repo')
import logging; logging.disable(logging.CRITICAL)
from file_builder import FileBuilder
import file_builder.file_builder as FB
d=tempfile.mkdtemp(prefix='fbp_'); c=os.path.join(d,'cache.gz')
P=lambda p: os.path.join(d,p)
b_at_gate=threading.Event(); a_done=threading.Event()
orig=FB.FileBuilder._prepare_file_creation
def prep(self):
    r=orig(self)
    if threading.current_thread().name=='B':
        b_at_gate.set(); a_done.wait()
    return r
FB.FileBuilder._prepare_file_creation=prep
calls=[]
def bf(b,fn):
    calls.append(threading.current_thread().name); open(fn,'w').write('by '+threading.current_thread().name)
    return threading.current_thread().name
res={}
def root(b):
    def wa():
        b_at_gate.wait()
        try: res['A']=('ok',b.build_file(P('o/f'),'bf',bf))
        except Exception as e: res['A']=('exc',repr(e))
        a_done.set()
    def wb():
        try: res['B']=('ok',b.build_file(P('o/f'),'bf',bf))
        except Exception as e: res['B']=('exc',repr(e))
    ta=threading.Thread(target=wa,name='A'); tb=threading.Thread(target=wb,name='B')
    ta.start(); tb.start(); ta.join(); tb.join()
    return [b.is_file(P('o/f'))]
print(FileBuilder.build(c,'n',root), res, calls)
print(os.path.exists(P('o/f')), sorted(os.listdir(d)))
calls.clear()
try: print(FileBuilder.build(c,'n',lambda b: b.build_file(P('o/f'),'bf',bf)), calls)
except Exception as e: print('next', repr(e))
shutil.rmtree(d)
