import os, shutil, tempfile, sys, traceback
sys.path.insert(0,'/repo')
from file_builder import FileBuilder, FileComparison
def fresh():
    d = tempfile.mkdtemp(prefix='fbp_'); return d, os.path.join(d,'cache.gz')
def W(p,s):
    with open(p,'w') as f: f.write(s)
d,c = fresh()
calls=[]
def f1(b,fn):
    calls.append('f1'); raise ValueError('f1')
def f2(b,fn):
    calls.append('f2')
    try: b.build_file(os.path.join(d,'a','f1'),'f1',f1)
    except ValueError: pass
    raise ValueError('f2')
def S(b):
    calls.append('S')
    try: b.build_file(os.path.join(d,'a','b','f2'),'f2',f2)
    except ValueError: pass
    return 7
def root(b): return b.subbuild('S',S)
for i in range(3):
    try: print(i, FileBuilder.build(c,'n',root), calls, sorted(os.listdir(d)))
    except Exception as e: traceback.print_exc(); print(i,'EXC',repr(e), sorted(os.listdir(d)))
shutil.rmtree(d)

# variant 2: sequential
d,c = fresh(); calls.clear()
def g2(b,fn): calls.append('g2'); W(fn,'x')
def S2(b):
    calls.append('S2')
    b.build_file(os.path.join(d,'a','b','f2'),'g2',g2)
    try: b.build_file(os.path.join(d,'a','f1'),'f1',f1)
    except ValueError: pass
    return [b.is_dir(os.path.join(d,'a')), b.list_dir(d)]
def root2(b): return b.subbuild('S2',S2)
for i in range(3):
    try: print(i, FileBuilder.build(c,'n',root2), calls)
    except Exception as e: traceback.print_exc(); print(i,'EXC',repr(e))
shutil.rmtree(d)
