import os, shutil, tempfile, sys, traceback, errno
sys.path.insert(0,'/repo')
from file_builder import FileBuilder
import file_builder.cache as C
def fresh():
    d = tempfile.mkdtemp(prefix='fbp_'); return d, os.path.join(d,'cache.gz')
def W(p,s):
    with open(p,'w') as f: f.write(s)
def tree(d):
    out=[]
    for r,ds,fs in os.walk(d):
        for x in sorted(ds): out.append(os.path.relpath(os.path.join(r,x),d)+'/')
        for x in sorted(fs): out.append(os.path.relpath(os.path.join(r,x),d))
    return sorted(out)
import gzip as real_gzip
class G:
    def __getattr__(self,n): return getattr(real_gzip,n)
    def open(self,fn,mode='rb',*a,**k):
        f=real_gzip.open(fn,mode,*a,**k)
        if 'w' in mode:
            class F:
                def __enter__(s): return s
                def __exit__(s,*e): f.close(); return False
                def write(s,x): raise OSError(errno.ENOSPC,'injected')
            return F()
        return f
d,c=fresh()
def bf(b,fn): W(fn,'x')
def root(b): b.build_file(os.path.join(d,'o','f'),'bf',bf); return 1
C.gzip=G()
try: FileBuilder.build(c,'n',root)
except Exception as e: print('EXC',repr(e))
C.gzip=real_gzip
print(tree(d))
try: print(FileBuilder.build(c,'n',root))
except Exception as e: print('EXC next',repr(e))
