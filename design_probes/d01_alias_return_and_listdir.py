import os, shutil, tempfile, sys
sys.path.insert(0,'/repo')
from file_builder import FileBuilder, FileComparison
d = tempfile.mkdtemp(prefix='fbp_')
cache = os.path.join(d,'cache.gz')
calls=[]
def sub(b):
    calls.append('sub'); return [1]
def root(b):
    r = b.subbuild('sub', sub)
    r.append('x')
    return r
for i in range(4):
    print(i, FileBuilder.build(cache,'n',root), calls)
# list_dir mutation
os.mkdir(os.path.join(d,'in')); open(os.path.join(d,'in','a'),'w').write('a'); open(os.path.join(d,'in','b'),'w').write('b')
calls.clear()
def sub2(b):
    calls.append('sub2')
    l = b.list_dir(os.path.join(d,'in'))
    n = len(l)
    l.remove('a')
    return n
def root2(b):
    return b.subbuild('sub2', sub2)
cache2 = os.path.join(d,'cache2.gz')
for i in range(3):
    print(i, FileBuilder.build(cache2,'n',root2), calls)
os.remove(os.path.join(d,'in','a'))
print('after rm a', FileBuilder.build(cache2,'n',root2), calls)
shutil.rmtree(d)
